#!/usr/bin/env python3
"""re-reads seeded/*/confirm.log into the meta.json files (run after tools/confirm_seed*.sh)"""
import json, glob, os
for m in glob.glob('/verif/seeded/*/meta.json'):
    d = os.path.dirname(m)
    j = json.load(open(m))
    p = os.path.join(d, 'confirm.log')
    if os.path.exists(p):
        j.setdefault('confirmation', {})['log'] = open(p).read().strip().splitlines()
        json.dump(j, open(m, 'w'), indent=1)
