#!/bin/bash
# usage: confirm_seed_dw.sh <seed id>  - for seeds that touch distributed-walrus / octopii (not part of the workspace suite, not buildable with cargo here):
# the author's standalone demo project (seeded/<id>/demo, #[path]-includes the changed file relative to <worktree>/SEEDED/demo) is built and run
# in a scratch worktree of /repo HEAD with and without the patch.
set -u
ID=$1; S=/verif/seeded/$ID; W=/tmp/confirm-dw-wt; LOG=$S/confirm.log
: > $LOG
rm -rf $W; git -C /repo worktree prune; git -C /repo worktree add --detach $W HEAD -q
cd $W; echo "HEAD $(git rev-parse --short HEAD)" >> $LOG
mkdir -p SEEDED; cp -r $S/demo SEEDED/demo
run() { (cd SEEDED/demo && CARGO_TARGET_DIR=$W/target-demo cargo build --offline -q 2>>$LOG.build && BIN=$(find $W/target-demo/debug -maxdepth 1 -type f -executable | head -1) && $BIN > $S/demo_$1.log 2>&1; echo "exit $?" ); }
echo "== demo WITHOUT patch: $(run without)" >> $LOG; tail -2 $S/demo_without.log >> $LOG
git apply $S/patch.diff || { echo "PATCH DOES NOT APPLY" >> $LOG; exit 1; }
echo "== demo WITH patch: $(run with)" >> $LOG; tail -2 $S/demo_with.log >> $LOG
echo "== suite: the change touches only distributed-walrus/ or octopii/, which are not members of the root package's test suite (cargo nextest --workspace builds only walrus-rust); not re-run" >> $LOG
cd /; git -C /repo worktree remove --force $W; rm -f $LOG.build
echo done >> $LOG
