#!/usr/bin/env python3
"""prints the prompt handed to a fresh sub-agent that is asked for a seeded property-breaking change.
usage: seed_prompt.py <prop id> <worktree dir> [extra hint]"""
import json, sys
pid, wt = sys.argv[1], sys.argv[2]
hint = sys.argv[3] if len(sys.argv) > 3 else ''
p = next(json.loads(l) for l in open('/verif/properties.jsonl') if json.loads(l)['id'] == pid)
b = json.load(open('/root/.vp/BASELINE.json'))
print(f"""You are helping to evaluate a verification effort for the Rust project nubskr/walrus (a WAL / log storage engine plus a distributed streaming layer). Your job: produce ONE realistic, subtle code change ("seeded defect") that BREAKS the semantic property below while the project still compiles and its existing test suite still passes.

Work ONLY inside your own scratch git worktree: {wt}  (a detached worktree of the repository at its current HEAD; build output goes to {wt}/target). Do NOT read, list or modify anything under /verif or /repo, and do not look at other directories under /tmp/seed - your work must be independent. There is no network; build with `cargo ... --offline`.

THE PROPERTY ({p['id']}: {p['title']})
Statement: {p['statement']}
Quantified over: {p['quantifier']['text']}
Anchored in: {json.dumps(p['anchors'])}

REQUIREMENTS FOR THE CHANGE
1. It is a change to the project's own source (under src/, or distributed-walrus/ / octopii/ if the property is anchored there), of the kind a developer could plausibly make by mistake or as a misguided optimisation/refactoring: a dropped or weakened check, a reordered pair of statements, a lock released early, an off-by-one at a boundary, a skipped flush/persist on one path, a stale cached value, two sites that each look fine alone, etc. Keep it small (typically 1-15 changed lines). Do not touch src/wal/verif.rs or any line guarded by `cfg(feature = "verif")` (verification hooks; off by default), do not edit tests, Cargo files or docs, and do not make behaviour depend on cargo features, env vars or magic inputs.
2. It must NOT be exposed by ordinary use at once. It must need something specific to manifest: a particular thread interleaving, a crash or I/O fault at a particular point, a multi-step sequence of operations, an unusual input/size/boundary, a restart at a particular moment, or two cooperating sites. A change that makes the first append/read of any program fail is useless.
3. The project must still compile, and the existing test suite must still pass with the change: every test that passes without the change must pass with it. The suite command is (run it from {wt}; it takes ~13 minutes; run it in the background with a long timeout while you do other things):
   cd {wt} && cargo nextest run --workspace --no-fail-fast --tool-config-file pb:/w/lib/nextest.toml --profile pb --test-threads 8 --offline
   (the "pb" profile prints only failures). These tests are known to fail or be flaky on the UNCHANGED tree in this sandbox, ignore them: always failing: {', '.join(x.split('::',1)[1] for x in b['always_fail'])}; flaky: {', '.join(x.split('::',1)[1] for x in b['flaky'])}. If your change makes any other test fail, refine the change (make it subtler) rather than giving up.
4. Provide a DEMONSTRATION: a new integration test file {wt}/tests/seeded_demo.rs (or, if the property is about code that cannot be built as a cargo test here, a small standalone program with instructions) that FAILS with your change applied and PASSES on the unchanged tree. It must be deterministic enough to fail reliably (>= 9 of 10 runs) with the change; if the defect needs an interleaving, force it (barriers, sleeps, many iterations) or explain the needed schedule; if it needs a crash, simulate it the way the demo can (e.g. kill a child process / std::process::abort in a child, or copy the directory at the crash point). Verify BOTH directions yourself (git stash / git diff > patch; git checkout to test without). Tests in this repo use env WALRUS_DATA_DIR or Walrus::builder().data_dir(...) for isolated temp directories - look at tests/ for conventions; WALRUS_QUIET=1 silences logging.
{hint}
DELIVERABLES (write them into {wt}/SEEDED/):
 - patch.diff : `git diff` of the source change only (NOT including the demo test), applicable with `git apply` at the repository root
 - seeded_demo.rs (copy of the demonstration) and, if standalone, how to run it
 - NOTES.md : what the change is, which part of the property it breaks, exactly what is needed for it to manifest (input / schedule / crash point / sequence), why the existing tests do not notice, and the exact commands you ran with their outcomes (suite result counts with the change; demo with/without)
Finish with a short report of the same. Be honest: if the suite run shows a newly failing test that you could not avoid, say so.""")
