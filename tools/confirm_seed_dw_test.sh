#!/bin/bash
# usage: confirm_seed_dw_test.sh <seed id>  - like confirm_seed_dw.sh, for demos that are cargo *test* projects (seeded/<id>/demo with tests/seeded_demo.rs,
# #[path]-including the real sources relative to <worktree>/SEEDED/demo): run with and without the patch in a scratch worktree of /repo HEAD.
set -u
ID=$1; S=/verif/seeded/$ID; W=/tmp/confirm-dw-wt; LOG=$S/confirm.log
: > $LOG
rm -rf $W; git -C /repo worktree prune; git -C /repo worktree add --detach $W HEAD -q
cd $W; echo "HEAD $(git rev-parse --short HEAD)" >> $LOG
mkdir -p SEEDED; cp -r $S/demo SEEDED/demo
run() { (cd SEEDED/demo && CARGO_TARGET_DIR=$W/target-demo cargo test --offline --test seeded_demo > $S/demo_$1.log 2>&1; echo "exit $?"); }
echo "== demo WITHOUT patch: $(run without)" >> $LOG; grep "test result" $S/demo_without.log >> $LOG
git apply $S/patch.diff || { echo "PATCH DOES NOT APPLY" >> $LOG; exit 1; }
n=0; for i in 1 2 3; do r=$(run with); [ "$r" = "exit 0" ] && n=$((n+1)); done
echo "== demo WITH patch: passed $n of 3 (expected 0)" >> $LOG; grep "test result" $S/demo_with.log >> $LOG
echo "== suite: the change touches only distributed-walrus/, which is not a member of the root package's test suite (cargo nextest --workspace builds only walrus-rust); not re-run" >> $LOG
cd /; git -C /repo worktree remove --force $W
echo done >> $LOG
