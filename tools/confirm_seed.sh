#!/bin/bash
# usage: confirm_seed.sh <seed id> [nosuite]   - confirms a seeded change kept under /verif/seeded/<id> in a scratch worktree of /repo HEAD
# (outside /repo and /verif): demo fails with the patch and passes without it; the pinned suite shows no newly failing test with the patch.
set -u
ID=$1; NOSUITE=${2:-}
S=/verif/seeded/$ID
W=/tmp/confirm-wt
LOG=$S/confirm.log
: > $LOG
DEMO_ARGS=""; DEMO_TAIL=""
[ -f $S/demo_args ] && DEMO_ARGS=$(cat $S/demo_args)
[ -f $S/demo_tail ] && DEMO_TAIL=$(cat $S/demo_tail)
if [ ! -d $W ]; then git -C /repo worktree add --detach $W HEAD -q; else git -C $W checkout -q --detach $(git -C /repo rev-parse HEAD); git -C $W checkout -q -- .; fi
cd $W; rm -f tests/seeded_demo.rs
echo "HEAD $(git rev-parse --short HEAD)" >> $LOG
cp $S/seeded_demo.rs tests/seeded_demo.rs
echo "== demo WITHOUT patch" >> $LOG
n=0; for i in 1 2 3; do if WALRUS_QUIET=1 cargo test --offline $DEMO_ARGS --test seeded_demo $DEMO_TAIL >> $S/demo_without.$i.log 2>&1 && ! grep -q "running 0 tests" $S/demo_without.$i.log; then n=$((n+1)); fi; done
echo "passed $n of 3" >> $LOG
git apply $S/patch.diff || { echo "PATCH DOES NOT APPLY" >> $LOG; exit 1; }
echo "== demo WITH patch" >> $LOG
n=0; for i in 1 2 3 4 5; do if WALRUS_QUIET=1 cargo test --offline $DEMO_ARGS --test seeded_demo $DEMO_TAIL >> $S/demo_with.$i.log 2>&1; then n=$((n+1)); fi; done
echo "passed $n of 5 (expected 0)" >> $LOG
if [ -z "$NOSUITE" ]; then
  rm -f tests/seeded_demo.rs
  echo "== suite WITH patch" >> $LOG
  cargo nextest run --workspace --no-fail-fast --tool-config-file pb:/w/lib/nextest.toml --profile pb --test-threads 8 --offline > $S/suite_with.log 2>&1
  grep -E "Summary" $S/suite_with.log >> $LOG
  python3 - $S/suite_with.log >> $LOG <<'PY'
import json,re,sys
b=json.load(open('/root/.vp/BASELINE.json'))
ok={x.split('::',1)[1].replace('::',' ') for x in b['always_fail']+b['flaky']}
okn={x.split('::')[-1] for x in b['always_fail']+b['flaky']}
bad=set()
for l in open(sys.argv[1]):
    m=re.match(r'\s+(FAIL|TIMEOUT|SIGABRT|SIGSEGV)\s+\[.*?\]\s+\(.*?\)\s+(\S+)\s+(\S+)',l)
    if m: bad.add(m.group(3))
new=sorted(x for x in bad if x.split('::')[-1] not in okn)
print('failing/timeouts:',sorted(bad)); print('NEWLY FAILING (not on the always_fail/flaky lists):',new)
PY
fi
git checkout -q -- . ; rm -f tests/seeded_demo.rs; find /tmp -maxdepth 1 \( -name "walrus*" -o -name ".tmp*" \) -mmin +2 -exec rm -rf {} + 2>/dev/null
rm -f $S/demo_without.[23].log $S/demo_with.[2345].log
echo "done" >> $LOG
