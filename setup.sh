#!/bin/sh
# Offline setup: pre-build the harnesses against /repo's working tree (feature "verif").
set -e
cd "$(dirname "$0")"
export CARGO_NET_OFFLINE=true
python3 - <<'PY'
import sys
sys.path.insert(0, '.')
from vlib import common
print(common.build('wsrv', 'debug'))
print(common.build('wsrv', 'release'))
try:
    print(common.build('wsrv', 'debug', flavor='asan'))
except common.BuildError as e:
    print('ASan build failed (C11 runs without its ASan pass):', e)
PY
python3 - <<'PY'
import sys
sys.path.insert(0, '.')
from vlib import common
print(common.build('dw', 'debug'))
print(common.build('oct', 'debug'))
PY
python3 - <<'PY'
# warm the Miri sysroot and the Miri build of harness/wmiri (third pass of C11); failure only disables that pass
import sys, os, shutil
sys.path.insert(0, '.')
from vlib import common
try:
    from vlib.checks import c11
    root = os.path.join(common.scratch_root(), 'setup-miri')
    os.makedirs(root, exist_ok=True)
    c11.miri_base(root)
    print('miri worker ready')
except Exception as e:
    print('Miri warm-up failed (C11 runs without its Miri pass):', e)
finally:
    common.cleanup_scratch()
PY
