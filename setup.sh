#!/bin/sh
# Offline setup: pre-build the harnesses against /repo's working tree (feature "verif").
set -e
cd "$(dirname "$0")"
export CARGO_NET_OFFLINE=true
python3 - <<'PY'
import sys
sys.path.insert(0, '.')
from vlib import common
print(common.build('wsrv', 'debug'))
print(common.build('wsrv', 'release'))
try:
    print(common.build('wsrv', 'debug', flavor='asan'))
except common.BuildError as e:
    print('ASan build failed (C11 runs without its ASan pass):', e)
PY
python3 - <<'PY'
import sys
sys.path.insert(0, '.')
from vlib import common
print(common.build('dw', 'debug'))
print(common.build('oct', 'debug'))
PY
