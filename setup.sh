#!/bin/sh
# Offline setup: pre-build the op-server harness against /repo's working tree (feature "verif").
set -e
cd "$(dirname "$0")"
export CARGO_NET_OFFLINE=true
python3 - <<'PY'
import sys
sys.path.insert(0, '.')
from vlib import common
print(common.build('wsrv', 'debug'))
PY
