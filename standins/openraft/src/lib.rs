//! Type-level stand-in for the part of openraft's storage API that octopii/src/openraft/{storage,types}.rs
//! mention. Data carriers and trait signatures only; no consensus logic.
use serde::{Deserialize, Serialize};
use std::fmt::Debug;
use std::io;
use std::marker::PhantomData;
use std::ops::RangeBounds;

pub trait OptionalSend: Send {}
impl<T: Send + ?Sized> OptionalSend for T {}

pub trait RaftTypeConfig: Sized + Send + Sync + Debug + Clone + Copy + Default + Eq + PartialEq + Ord + PartialOrd + 'static {
    type D: Clone + Debug + Send + Sync + Serialize + for<'a> Deserialize<'a> + 'static;
    type R: Clone + Debug + Send + Sync + 'static;
    type NodeId: Copy + Debug + Default + Eq + Ord + Send + Sync + Serialize + for<'a> Deserialize<'a> + std::fmt::Display + 'static;
    type SnapshotData: Send + 'static;
}
#[macro_export]
macro_rules! declare_raft_types {
    ($(#[$m:meta])* pub $name:ident : D = $d:ty, R = $r:ty, NodeId = $n:ty $(,)?) => {
        $(#[$m])* #[derive(Debug, Clone, Copy, Default, PartialEq, Eq, PartialOrd, Ord, serde::Serialize, serde::Deserialize)]
        pub struct $name;
        impl $crate::RaftTypeConfig for $name { type D = $d; type R = $r; type NodeId = $n; type SnapshotData = std::io::Cursor<Vec<u8>>; }
    };
}
pub mod alias { pub type SnapshotDataOf<C> = <C as crate::RaftTypeConfig>::SnapshotData; }

#[derive(Debug, Clone, Copy, Default, PartialEq, Eq, PartialOrd, Ord, Serialize, Deserialize)]
#[serde(bound = "")]
pub struct LeaderId<C: RaftTypeConfig> { pub term: u64, pub node_id: C::NodeId }
#[derive(Debug, Clone, Copy, Default, PartialEq, Eq, PartialOrd, Ord, Serialize, Deserialize)]
#[serde(bound = "")]
pub struct LogId<C: RaftTypeConfig> { pub leader_id: LeaderId<C>, pub index: u64 }
impl<C: RaftTypeConfig> LogId<C> { pub fn new(term: u64, node_id: C::NodeId, index: u64) -> Self { LogId { leader_id: LeaderId { term, node_id }, index } } }
#[derive(Debug, Clone, Copy, Default, PartialEq, Eq, PartialOrd, Ord, Serialize, Deserialize)]
#[serde(bound = "")]
pub struct Vote<C: RaftTypeConfig> { pub leader_id: LeaderId<C>, pub committed: bool }
#[derive(Debug, Clone, Default, PartialEq, Eq, Serialize, Deserialize)]
#[serde(bound = "")]
pub struct Membership<C: RaftTypeConfig> { pub configs: Vec<std::collections::BTreeSet<C::NodeId>>, #[serde(skip)] _p: PhantomData<C> }
impl<C: RaftTypeConfig> Membership<C> { pub fn new(configs: Vec<std::collections::BTreeSet<C::NodeId>>) -> Self { Membership { configs, _p: PhantomData } } }
#[derive(Debug, Clone, Default, PartialEq, Eq, Serialize, Deserialize)]
#[serde(bound = "")]
pub struct StoredMembership<C: RaftTypeConfig> { pub log_id: Option<LogId<C>>, pub membership: Membership<C> }
impl<C: RaftTypeConfig> StoredMembership<C> { pub fn new(log_id: Option<LogId<C>>, membership: Membership<C>) -> Self { StoredMembership { log_id, membership } } }
#[derive(Debug, Clone, PartialEq, Eq, Serialize, Deserialize)]
#[serde(bound = "")]
pub enum EntryPayload<C: RaftTypeConfig> { Blank, Normal(C::D), Membership(Membership<C>) }
#[derive(Debug, Clone, Serialize, Deserialize)]
#[serde(bound = "")]
pub struct Entry<C: RaftTypeConfig> { pub log_id: LogId<C>, pub payload: EntryPayload<C> }
#[derive(Debug)]
pub struct StorageError<C>(pub String, PhantomData<C>);

pub mod storage {
    use super::*;
    pub use super::{RaftLogReader, };
    #[derive(Debug, Clone, Default, PartialEq, Eq)]
    pub struct LogState<C: RaftTypeConfig> { pub last_purged_log_id: Option<LogId<C>>, pub last_log_id: Option<LogId<C>> }
    #[derive(Debug, Clone, Default, PartialEq, Eq)]
    pub struct SnapshotMeta<C: RaftTypeConfig> { pub last_log_id: Option<LogId<C>>, pub last_membership: StoredMembership<C>, pub snapshot_id: String }
    pub struct Snapshot<C: RaftTypeConfig> { pub meta: SnapshotMeta<C>, pub snapshot: C::SnapshotData }
    pub struct IOFlushed<C: RaftTypeConfig> { pub done: std::sync::Arc<std::sync::Mutex<Option<io::Result<()>>>>, _p: PhantomData<C> }
    impl<C: RaftTypeConfig> IOFlushed<C> { pub fn new() -> Self { IOFlushed { done: Default::default(), _p: PhantomData } } pub async fn io_completed(self, r: io::Result<()>) { *self.done.lock().unwrap() = Some(r); } }
    pub struct Responder<C: RaftTypeConfig> { pub slot: std::sync::Arc<std::sync::Mutex<Vec<C::R>>> }
    impl<C: RaftTypeConfig> Responder<C> { pub fn send(self, r: C::R) { self.slot.lock().unwrap().push(r); } }
    pub type EntryResponder<C> = (Entry<C>, Option<Responder<C>>);
    pub trait RaftLogStorage<C: RaftTypeConfig>: Sized + Send {
        type LogReader: RaftLogReader<C>;
        fn get_log_state(&mut self) -> impl std::future::Future<Output = Result<LogState<C>, io::Error>> + Send;
        fn save_committed(&mut self, committed: Option<LogId<C>>) -> impl std::future::Future<Output = Result<(), io::Error>> + Send;
        fn read_committed(&mut self) -> impl std::future::Future<Output = Result<Option<LogId<C>>, io::Error>> + Send;
        fn save_vote(&mut self, vote: &Vote<C>) -> impl std::future::Future<Output = Result<(), io::Error>> + Send;
        fn append<I>(&mut self, entries: I, callback: IOFlushed<C>) -> impl std::future::Future<Output = Result<(), io::Error>> + Send where I: IntoIterator<Item = Entry<C>> + OptionalSend, I::IntoIter: OptionalSend;
        fn truncate(&mut self, log_id: LogId<C>) -> impl std::future::Future<Output = Result<(), io::Error>> + Send;
        fn purge(&mut self, log_id: LogId<C>) -> impl std::future::Future<Output = Result<(), io::Error>> + Send;
        fn get_log_reader(&mut self) -> impl std::future::Future<Output = Self::LogReader> + Send;
    }
    pub trait RaftSnapshotBuilder<C: RaftTypeConfig>: Send { fn build_snapshot(&mut self) -> impl std::future::Future<Output = Result<Snapshot<C>, io::Error>> + Send; }
    pub trait RaftStateMachine<C: RaftTypeConfig>: Sized + Send {
        type SnapshotBuilder: RaftSnapshotBuilder<C>;
        fn applied_state(&mut self) -> impl std::future::Future<Output = Result<(Option<LogId<C>>, StoredMembership<C>), io::Error>> + Send;
        fn apply<Strm>(&mut self, entries: Strm) -> impl std::future::Future<Output = Result<(), io::Error>> + Send where Strm: futures::Stream<Item = Result<EntryResponder<C>, io::Error>> + Unpin + OptionalSend;
        fn begin_receiving_snapshot(&mut self) -> impl std::future::Future<Output = Result<C::SnapshotData, io::Error>> + Send;
        fn install_snapshot(&mut self, meta: &SnapshotMeta<C>, snapshot: C::SnapshotData) -> impl std::future::Future<Output = Result<(), io::Error>> + Send;
        fn get_current_snapshot(&mut self) -> impl std::future::Future<Output = Result<Option<Snapshot<C>>, io::Error>> + Send;
        fn get_snapshot_builder(&mut self) -> impl std::future::Future<Output = Self::SnapshotBuilder> + Send;
    }
}
pub trait RaftLogReader<C: RaftTypeConfig>: Send {
    fn try_get_log_entries<RB: RangeBounds<u64> + Clone + Debug + Send>(&mut self, range: RB) -> impl std::future::Future<Output = Result<Vec<Entry<C>>, io::Error>> + Send;
    fn read_vote(&mut self) -> impl std::future::Future<Output = Result<Option<Vote<C>>, io::Error>> + Send;
}
