//! Test double for octopii: a linearizable replicated command log shared by in-process "nodes".
use bytes::Bytes;
use std::collections::{BTreeSet, HashMap};
use std::future::Future;
use std::net::SocketAddr;
use std::pin::Pin;
use std::sync::{Arc, Mutex, RwLock};
use std::time::Duration;

pub trait StateMachineTrait: Send + Sync {
    fn apply(&self, command: &[u8]) -> std::result::Result<Bytes, String>;
    fn snapshot(&self) -> Vec<u8>;
    fn restore(&self, data: &[u8]) -> std::result::Result<(), String>;
    fn compact(&self) -> std::result::Result<(), String> { Ok(()) }
}
pub type StateMachine = Arc<dyn StateMachineTrait>;

#[derive(Debug)] pub struct OctopiiError(pub String);
impl std::fmt::Display for OctopiiError { fn fmt(&self, f: &mut std::fmt::Formatter<'_>) -> std::fmt::Result { write!(f, "{}", self.0) } }
impl std::error::Error for OctopiiError {}
pub type Result<T> = std::result::Result<T, OctopiiError>;

pub mod rpc {
    use super::*;
    #[derive(Debug, Clone)] pub enum RequestPayload { Custom { operation: String, data: Bytes } }
    #[derive(Debug, Clone)] pub enum ResponsePayload { CustomResponse { success: bool, data: Bytes }, Error { message: String } }
    #[derive(Debug, Clone)] pub struct RpcRequest { pub payload: RequestPayload }
    #[derive(Debug, Clone)] pub struct RpcResponse { pub payload: ResponsePayload }
    pub struct RpcHandler { pub(crate) cluster: Arc<Cluster> }
    impl RpcHandler {
        pub async fn request(&self, addr: SocketAddr, payload: RequestPayload, _timeout: Duration) -> Result<RpcResponse> {
            let h = self.cluster.handler_for(addr).ok_or_else(|| OctopiiError(format!("no node at {addr}")))?;
            Ok(RpcResponse { payload: h(RpcRequest { payload }).await })
        }
    }
}
pub type Handler = Arc<dyn Fn(rpc::RpcRequest) -> Pin<Box<dyn Future<Output = rpc::ResponsePayload> + Send>> + Send + Sync>;

struct NodeSlot { sm: StateMachine, applied: usize, addr: SocketAddr, handler: Option<Handler> }
pub struct Cluster { log: Mutex<Vec<Vec<u8>>>, nodes: RwLock<HashMap<u64, Mutex<NodeSlot>>>, leader: RwLock<Option<u64>>, voters: RwLock<BTreeSet<u64>> }
impl Cluster {
    pub fn new() -> Arc<Self> { Arc::new(Cluster { log: Mutex::new(Vec::new()), nodes: RwLock::new(HashMap::new()), leader: RwLock::new(None), voters: RwLock::new(BTreeSet::new()) }) }
    pub fn add_node(self: &Arc<Self>, id: u64, addr: SocketAddr, sm: StateMachine) -> Arc<OpenRaftNode> {
        self.nodes.write().unwrap().insert(id, Mutex::new(NodeSlot { sm, applied: 0, addr, handler: None }));
        self.voters.write().unwrap().insert(id);
        let mut l = self.leader.write().unwrap(); if l.is_none() { *l = Some(id); }
        Arc::new(OpenRaftNode { id, cluster: self.clone(), peers: Mutex::new(HashMap::new()) })
    }
    fn handler_for(&self, addr: SocketAddr) -> Option<Handler> { self.nodes.read().unwrap().values().find_map(|n| { let n = n.lock().unwrap(); if n.addr == addr { n.handler.clone() } else { None } }) }
    /// Apply all log entries not yet applied on `id` (the harness decides when followers catch up).
    pub fn catch_up(&self, id: u64) -> usize {
        let nodes = self.nodes.read().unwrap(); let Some(slot) = nodes.get(&id) else { return 0 }; let mut slot = slot.lock().unwrap();
        let log = self.log.lock().unwrap(); let mut n = 0;
        while slot.applied < log.len() { let _ = slot.sm.apply(&log[slot.applied]); slot.applied += 1; n += 1; } n
    }
}
#[derive(Debug, Clone, serde::Serialize)] pub struct Membership { configs: Vec<BTreeSet<u64>> }
impl Membership { pub fn get_joint_config(&self) -> &Vec<BTreeSet<u64>> { &self.configs } }
#[derive(Debug, Clone, serde::Serialize)] pub struct StoredMembership { membership: Membership }
impl StoredMembership { pub fn membership(&self) -> &Membership { &self.membership } }
#[derive(Debug, Clone, serde::Serialize)] pub struct RaftMetrics { pub current_leader: Option<u64>, pub state: String, pub last_log_index: Option<u64>, pub membership_config: StoredMembership }

pub struct OpenRaftNode { id: u64, cluster: Arc<Cluster>, peers: Mutex<HashMap<u64, SocketAddr>> }
pub use OpenRaftNode as OctopiiNode;
impl OpenRaftNode {
    pub fn id(&self) -> u64 { self.id }
    pub async fn is_leader(&self) -> bool { *self.cluster.leader.read().unwrap() == Some(self.id) }
    pub async fn propose(&self, cmd: Vec<u8>) -> Result<Bytes> {
        if !self.is_leader().await { return Err(OctopiiError("not leader".into())); }
        let nodes = self.cluster.nodes.read().unwrap(); let mut slot = nodes.get(&self.id).unwrap().lock().unwrap();
        let mut log = self.cluster.log.lock().unwrap();
        while slot.applied < log.len() { let _ = slot.sm.apply(&log[slot.applied]); slot.applied += 1; }
        log.push(cmd.clone()); slot.applied += 1;
        slot.sm.apply(&cmd).map_err(OctopiiError)
    }
    pub fn raft_metrics(&self) -> RaftMetrics {
        let voters = self.cluster.voters.read().unwrap().clone();
        RaftMetrics { current_leader: *self.cluster.leader.read().unwrap(), state: "double".into(), last_log_index: Some(self.cluster.log.lock().unwrap().len() as u64), membership_config: StoredMembership { membership: Membership { configs: vec![voters] } } }
    }
    pub fn rpc_handler(&self) -> Arc<rpc::RpcHandler> { Arc::new(rpc::RpcHandler { cluster: self.cluster.clone() }) }
    pub async fn set_custom_rpc_handler(&self, h: Handler) { self.cluster.nodes.read().unwrap().get(&self.id).unwrap().lock().unwrap().handler = Some(h); }
    pub async fn peer_addr_for(&self, id: u64) -> Option<SocketAddr> { self.peers.lock().unwrap().get(&id).copied() }
    pub async fn update_peer_addr(&self, id: u64, a: SocketAddr) { self.peers.lock().unwrap().insert(id, a); }
    pub async fn add_learner(&self, _id: u64, _a: SocketAddr) -> Result<()> { Ok(()) }
    pub async fn is_learner_caught_up(&self, _id: u64) -> Result<bool> { Ok(true) }
    pub async fn promote_learner(&self, _id: u64) -> Result<()> { Ok(()) }
}
