//! Thread-per-task, blocking stand-in for the subset of tokio used by distributed-walrus / octopii::wal.
//! Every "async" primitive completes on its first poll by blocking the calling OS thread.
use std::future::Future;
use std::pin::Pin;
use std::sync::{Arc, Condvar, Mutex as StdMutex};
use std::task::{Context, Poll, Wake, Waker};

struct ThreadWaker(std::thread::Thread);
impl Wake for ThreadWaker { fn wake(self: Arc<Self>) { self.0.unpark(); } }
pub fn block_on<F: Future>(fut: F) -> F::Output {
    let mut fut = std::pin::pin!(fut);
    let waker = Waker::from(Arc::new(ThreadWaker(std::thread::current())));
    let mut cx = Context::from_waker(&waker);
    loop { match fut.as_mut().poll(&mut cx) { Poll::Ready(v) => return v, Poll::Pending => std::thread::park() } }
}

pub mod task {
    use super::*;
    #[derive(Debug)] pub struct JoinError(String);
    impl std::fmt::Display for JoinError { fn fmt(&self, f: &mut std::fmt::Formatter<'_>) -> std::fmt::Result { write!(f, "task failed: {}", self.0) } }
    impl std::error::Error for JoinError {}
    pub struct JoinHandle<T> { inner: Option<std::thread::JoinHandle<T>> }
    impl<T> JoinHandle<T> { pub fn abort(&self) {} pub fn is_finished(&self) -> bool { self.inner.as_ref().map(|h| h.is_finished()).unwrap_or(true) } }
    impl<T> Unpin for JoinHandle<T> {}
    impl<T> Future for JoinHandle<T> { type Output = Result<T, JoinError>;
        fn poll(mut self: Pin<&mut Self>, _: &mut Context<'_>) -> Poll<Self::Output> {
            let h = self.inner.take().expect("JoinHandle polled after completion");
            Poll::Ready(h.join().map_err(|_| JoinError("panicked".into()))) } }
    pub fn spawn<F>(fut: F) -> JoinHandle<F::Output> where F: Future + Send + 'static, F::Output: Send + 'static {
        JoinHandle { inner: Some(std::thread::spawn(move || super::block_on(fut))) } }
    pub fn spawn_blocking<F, R>(f: F) -> JoinHandle<R> where F: FnOnce() -> R + Send + 'static, R: Send + 'static {
        JoinHandle { inner: Some(std::thread::spawn(f)) } }
    pub fn block_in_place<F: FnOnce() -> R, R>(f: F) -> R { f() }
    pub async fn yield_now() { std::thread::yield_now() }
}
pub use task::spawn;

pub mod runtime {
    use super::*;
    #[derive(Clone, Debug)] pub struct Handle;
    impl Handle { pub fn current() -> Handle { Handle } pub fn block_on<F: Future>(&self, f: F) -> F::Output { super::block_on(f) }
        pub fn spawn<F>(&self, fut: F) -> task::JoinHandle<F::Output> where F: Future + Send + 'static, F::Output: Send + 'static { task::spawn(fut) } }
}

pub mod time {
    use super::*;
    pub use std::time::Duration;
    pub use std::time::Instant;
    pub async fn sleep(d: Duration) { std::thread::sleep(d) }
    pub mod error { #[derive(Debug)] pub struct Elapsed(pub(crate) ()); impl std::fmt::Display for Elapsed { fn fmt(&self, f: &mut std::fmt::Formatter<'_>) -> std::fmt::Result { write!(f, "deadline has elapsed") } } impl std::error::Error for Elapsed {} }
    /// No pre-emption: the inner future runs to completion (a wall-clock watchdog lives outside the process).
    pub async fn timeout<F: Future>(_d: Duration, f: F) -> Result<F::Output, error::Elapsed> { Ok(f.await) }
    pub struct Interval { period: Duration, first: bool }
    pub fn interval(period: Duration) -> Interval { Interval { period, first: true } }
    impl Interval { pub async fn tick(&mut self) -> Instant { if self.first { self.first = false; } else { std::thread::sleep(self.period); } Instant::now() } }
}

pub mod sync {
    use super::*;
    use std::cell::UnsafeCell;
    use std::ops::{Deref, DerefMut};
    // ---- Mutex ----
    pub struct Mutex<T: ?Sized> { locked: StdMutex<bool>, cv: Condvar, data: UnsafeCell<T> }
    unsafe impl<T: ?Sized + Send> Send for Mutex<T> {}
    unsafe impl<T: ?Sized + Send> Sync for Mutex<T> {}
    impl<T: Default> Default for Mutex<T> { fn default() -> Self { Self::new(T::default()) } }
    impl<T: std::fmt::Debug> std::fmt::Debug for Mutex<T> { fn fmt(&self, f: &mut std::fmt::Formatter<'_>) -> std::fmt::Result { write!(f, "Mutex{{..}}") } }
    impl<T> Mutex<T> { pub fn new(t: T) -> Self { Mutex { locked: StdMutex::new(false), cv: Condvar::new(), data: UnsafeCell::new(t) } } }
    impl<T: ?Sized> Mutex<T> {
        fn acquire(&self) { let mut g = self.locked.lock().unwrap(); while *g { g = self.cv.wait(g).unwrap(); } *g = true; }
        fn release(&self) { *self.locked.lock().unwrap() = false; self.cv.notify_one(); }
        pub async fn lock(&self) -> MutexGuard<'_, T> { self.acquire(); MutexGuard { m: self } }
        pub async fn lock_owned(self: Arc<Self>) -> OwnedMutexGuard<T> { self.acquire(); OwnedMutexGuard { m: self } }
        pub fn blocking_lock(&self) -> MutexGuard<'_, T> { self.acquire(); MutexGuard { m: self } }
    }
    pub struct MutexGuard<'a, T: ?Sized> { m: &'a Mutex<T> }
    unsafe impl<T: ?Sized + Send> Send for MutexGuard<'_, T> {}
    unsafe impl<T: ?Sized + Send + Sync> Sync for MutexGuard<'_, T> {}
    impl<T: ?Sized> Deref for MutexGuard<'_, T> { type Target = T; fn deref(&self) -> &T { unsafe { &*self.m.data.get() } } }
    impl<T: ?Sized> DerefMut for MutexGuard<'_, T> { fn deref_mut(&mut self) -> &mut T { unsafe { &mut *self.m.data.get() } } }
    impl<T: ?Sized> Drop for MutexGuard<'_, T> { fn drop(&mut self) { self.m.release() } }
    pub struct OwnedMutexGuard<T: ?Sized> { m: Arc<Mutex<T>> }
    unsafe impl<T: ?Sized + Send> Send for OwnedMutexGuard<T> {}
    unsafe impl<T: ?Sized + Send + Sync> Sync for OwnedMutexGuard<T> {}
    impl<T: ?Sized> Deref for OwnedMutexGuard<T> { type Target = T; fn deref(&self) -> &T { unsafe { &*self.m.data.get() } } }
    impl<T: ?Sized> DerefMut for OwnedMutexGuard<T> { fn deref_mut(&mut self) -> &mut T { unsafe { &mut *self.m.data.get() } } }
    impl<T: ?Sized> Drop for OwnedMutexGuard<T> { fn drop(&mut self) { self.m.release() } }
    // ---- RwLock ----
    pub struct RwLock<T: ?Sized> { st: StdMutex<(usize, bool)>, cv: Condvar, data: UnsafeCell<T> }
    unsafe impl<T: ?Sized + Send> Send for RwLock<T> {}
    unsafe impl<T: ?Sized + Send + Sync> Sync for RwLock<T> {}
    impl<T: Default> Default for RwLock<T> { fn default() -> Self { Self::new(T::default()) } }
    impl<T> std::fmt::Debug for RwLock<T> { fn fmt(&self, f: &mut std::fmt::Formatter<'_>) -> std::fmt::Result { write!(f, "RwLock{{..}}") } }
    impl<T> RwLock<T> { pub fn new(t: T) -> Self { RwLock { st: StdMutex::new((0, false)), cv: Condvar::new(), data: UnsafeCell::new(t) } } }
    impl<T: ?Sized> RwLock<T> {
        pub async fn read(&self) -> RwLockReadGuard<'_, T> { let mut g = self.st.lock().unwrap(); while g.1 { g = self.cv.wait(g).unwrap(); } g.0 += 1; RwLockReadGuard { l: self } }
        pub async fn write(&self) -> RwLockWriteGuard<'_, T> { let mut g = self.st.lock().unwrap(); while g.1 || g.0 > 0 { g = self.cv.wait(g).unwrap(); } g.1 = true; RwLockWriteGuard { l: self } }
    }
    pub struct RwLockReadGuard<'a, T: ?Sized> { l: &'a RwLock<T> }
    unsafe impl<T: ?Sized + Sync> Send for RwLockReadGuard<'_, T> {}
    unsafe impl<T: ?Sized + Sync> Sync for RwLockReadGuard<'_, T> {}
    impl<T: ?Sized> Deref for RwLockReadGuard<'_, T> { type Target = T; fn deref(&self) -> &T { unsafe { &*self.l.data.get() } } }
    impl<T: ?Sized> Drop for RwLockReadGuard<'_, T> { fn drop(&mut self) { self.l.st.lock().unwrap().0 -= 1; self.l.cv.notify_all(); } }
    pub struct RwLockWriteGuard<'a, T: ?Sized> { l: &'a RwLock<T> }
    unsafe impl<T: ?Sized + Send + Sync> Send for RwLockWriteGuard<'_, T> {}
    unsafe impl<T: ?Sized + Send + Sync> Sync for RwLockWriteGuard<'_, T> {}
    impl<T: ?Sized> Deref for RwLockWriteGuard<'_, T> { type Target = T; fn deref(&self) -> &T { unsafe { &*self.l.data.get() } } }
    impl<T: ?Sized> DerefMut for RwLockWriteGuard<'_, T> { fn deref_mut(&mut self) -> &mut T { unsafe { &mut *self.l.data.get() } } }
    impl<T: ?Sized> Drop for RwLockWriteGuard<'_, T> { fn drop(&mut self) { self.l.st.lock().unwrap().1 = false; self.l.cv.notify_all(); } }
}

pub mod io {
    pub trait AsyncReadExt { fn read_exact<'a>(&'a mut self, buf: &'a mut [u8]) -> impl std::future::Future<Output = std::io::Result<usize>> + Send + 'a;
        /// one read(2): may return fewer bytes than the buffer holds (0 = end of stream), like tokio's
        fn read<'a>(&'a mut self, buf: &'a mut [u8]) -> impl std::future::Future<Output = std::io::Result<usize>> + Send + 'a; }
    pub trait AsyncWriteExt { fn write_all<'a>(&'a mut self, buf: &'a [u8]) -> impl std::future::Future<Output = std::io::Result<()>> + Send + 'a;
        fn flush<'a>(&'a mut self) -> impl std::future::Future<Output = std::io::Result<()>> + Send + 'a; }
}
pub mod net {
    use std::io::{Read, Write};
    use std::net::{SocketAddr, ToSocketAddrs};
    pub struct TcpListener(std::net::TcpListener);
    impl TcpListener { pub async fn bind<A: ToSocketAddrs>(a: A) -> std::io::Result<Self> { Ok(TcpListener(std::net::TcpListener::bind(a)?)) }
        pub async fn accept(&self) -> std::io::Result<(TcpStream, SocketAddr)> { let (s, a) = self.0.accept()?; Ok((TcpStream(s), a)) }
        pub fn local_addr(&self) -> std::io::Result<SocketAddr> { self.0.local_addr() } }
    pub struct TcpStream(std::net::TcpStream);
    impl TcpStream { pub async fn connect<A: ToSocketAddrs>(a: A) -> std::io::Result<Self> { Ok(TcpStream(std::net::TcpStream::connect(a)?)) } }
    impl super::io::AsyncReadExt for TcpStream { fn read_exact<'a>(&'a mut self, buf: &'a mut [u8]) -> impl std::future::Future<Output = std::io::Result<usize>> + Send + 'a { async move { self.0.read_exact(buf)?; Ok(buf.len()) } }
        fn read<'a>(&'a mut self, buf: &'a mut [u8]) -> impl std::future::Future<Output = std::io::Result<usize>> + Send + 'a { async move { self.0.read(buf) } } }
    impl super::io::AsyncWriteExt for TcpStream { fn write_all<'a>(&'a mut self, buf: &'a [u8]) -> impl std::future::Future<Output = std::io::Result<()>> + Send + 'a { async move { self.0.write_all(buf) } }
        fn flush<'a>(&'a mut self) -> impl std::future::Future<Output = std::io::Result<()>> + Send + 'a { async move { self.0.flush() } } }
    pub async fn lookup_host<A: ToSocketAddrs>(a: A) -> std::io::Result<impl Iterator<Item = SocketAddr>> { Ok(a.to_socket_addrs()?.collect::<Vec<_>>().into_iter()) }
}
impl<T: ?Sized + std::fmt::Debug> std::fmt::Debug for sync::RwLockReadGuard<'_, T> { fn fmt(&self, f: &mut std::fmt::Formatter<'_>) -> std::fmt::Result { std::fmt::Debug::fmt(&**self, f) } }
impl<T: ?Sized + std::fmt::Debug> std::fmt::Debug for sync::RwLockWriteGuard<'_, T> { fn fmt(&self, f: &mut std::fmt::Formatter<'_>) -> std::fmt::Result { std::fmt::Debug::fmt(&**self, f) } }
impl<T: ?Sized + std::fmt::Debug> std::fmt::Debug for sync::MutexGuard<'_, T> { fn fmt(&self, f: &mut std::fmt::Formatter<'_>) -> std::fmt::Result { std::fmt::Debug::fmt(&**self, f) } }
