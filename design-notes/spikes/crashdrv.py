import subprocess, shutil, os, re, sys, ast
B='/var/tmp/vt/scratch-target/debug/spikeb'
mode=sys.argv[1]; be=sys.argv[2]
def run(args):
    p=subprocess.run([B]+args,capture_output=True,text=True,timeout=120)
    return p.returncode,[l for l in p.stdout.splitlines() if not l.startswith('[')]
def sparse_copy(src,dst):
    subprocess.run(['cp','-r','--sparse=always',src,dst],check=True)
base='/dev/shm/vt-crash'
res=[]
N=None
k=0
viol=0
while True:
    k+=1
    if N is not None and k> N: break
    d=base+'/w'; shutil.rmtree(base,ignore_errors=True); os.makedirs(d)
    rc,lines=run(['work',d,str(k),mode,be])
    if N is None:
        # first get N from a crash-free run
        rc0,l0=run(['work',base+'/w0',"0",mode,be]); N=int(l0[-1].split('=')[1]); shutil.rmtree(base+'/w0')
    acked={'a':[], 'b':[]}; inflight=None; consumed={'a':0,'b':0}; consumed_tags=[]
    calls={}
    for l in lines:
        t=l.split()
        if t[0]=='CALL': calls[t[1]]=t; inflight=t
        elif t[0]=='RET':
            c=calls[t[1]]; inflight=None
            if c[2]=='append' and t[2]=='true': acked[c[3]].append((int(c[4]),int(c[5])))
            elif c[2]=='batch' and t[2]=='true':
                for j,ln in enumerate([10,20,30]): acked[c[3]].append((int(c[4])+j,ln))
            elif c[2]=='read':
                rest=l.split(' ',2)[2]
                if rest!='None': consumed_tags.append(ast.literal_eval(rest[5:-1])[0])
            elif c[2]=='bread':
                rest=l.split(' ',2)[2]
                for e in ast.literal_eval(rest): consumed_tags.append(e[0])
    # full-log copy (no index)
    d2=base+'/full'; sparse_copy(d,d2)
    for f in os.listdir(d2+'/k'):
        if f.startswith('read_offset_idx'): os.remove(d2+'/k/'+f)
    rc1,full=run(['recover',d2,"0",mode,be])
    rc2,asleft=run(['recover',d,"0",mode,be])
    def parse(ls):
        out={}
        for l in ls:
            m=re.match(r'TOPIC (\w+) .*entries=(.*)$',l)
            if m: out[m.group(1)]=ast.literal_eval(m.group(2).replace('true','True').replace('false','False'))
        return out
    pf=parse(full); pa=parse(asleft)
    msgs=[]
    if rc1!=0 or rc2!=0: msgs.append(f'recover rc {rc1} {rc2}')
    for t in 'ab':
        got=[(x[0],x[1]) for x in pf.get(t,[])]
        exp=acked[t]
        extra=[]
        if inflight and inflight[2]=='append' and inflight[3]==t: extra=[(int(inflight[4]),int(inflight[5]))]
        if inflight and inflight[2]=='batch' and inflight[3]==t: extra=[(int(inflight[4])+j,ln) for j,ln in enumerate([10,20,30])]
        ok = got[:len(exp)]==exp and all(x[2] for x in pf.get(t,[])) and got[len(exp):] in [extra[:i] for i in range(len(extra)+1)]
        if not ok: msgs.append(f'C07 topic {t}: got {got} expected {exp}+{extra}')
        if extra and got[len(exp):] not in ([],extra): msgs.append(f'C08 partial batch {got[len(exp):]}')
    # C09 strict: as-left topic a must start right after consumed
    got=[x[0] for x in pa.get('a',[])]
    exp_all=[x[0] for x in acked['a']]
    c=len(consumed_tags)
    alts=[exp_all[c:]]
    if inflight and inflight[2] in('read','bread'): alts += [exp_all[c+i:] for i in range(1,len(exp_all)-c+1)]
    if inflight and inflight[2] in('append','batch') and inflight[3]=='a':
        ex=[int(inflight[4])] if inflight[2]=='append' else [int(inflight[4])+j for j in range(3)]
        alts=[a+ex[:i] for a in alts for i in range(len(ex)+1)]
    if mode=='strict':
        if got not in alts: msgs.append(f'C09 strict: as-left a={got} consumed={consumed_tags} expected one of {alts[:2]}')
    else:
        # ALO: must be a suffix of exp_all starting at p<=c, contiguous
        okk=any(got==exp_all[p:]+e for p in range(0,c+ (len(exp_all)-c if inflight and inflight[2] in('read','bread') else 0)+1) for e in ([[]]))
        if not okk and not (inflight and inflight[2] in('append','batch')): msgs.append(f'C09 alo: as-left a={got} consumed={consumed_tags} all={exp_all}')
    st='OK' if not msgs else 'VIOL'
    if msgs: viol+=1
    print(k,'inflight=',inflight[1:3] if inflight else None,st,*msgs,flush=True)
shutil.rmtree(base,ignore_errors=True)
print('N',N,'violating crash points',viol)
