use walrus_rust::wal::verif;
use walrus_rust::*;
fn drain(w: &Walrus, t: &str) -> Vec<usize> { let mut v = vec![]; while let Some(e) = w.read_next(t, true).unwrap() { v.push(e.data.len()); } v }
fn main() {
    std::env::set_var("WALRUS_QUIET", "1");
    let a: Vec<String> = std::env::args().collect();
    let dir = a[1].clone(); let be = a[2].as_str(); let shape = a[3].as_str();
    if be == "mmap" { disable_fd_backend(); }
    let open = || Walrus::builder().data_dir(dir.clone().into()).key("k").fsync_schedule(FsyncSchedule::NoFsync).build().unwrap();
    let w = open();
    let e4 = vec![1u8; 4 << 20];
    w.append_for_topic("t", &vec![9u8; 111]).unwrap();
    let batch: Vec<&[u8]> = match shape { "oneblock" => vec![&e4[..100], &e4[..200], &e4[..300]], _ => vec![&e4, &e4, &e4, &e4] }; // cross: 4x4MiB crosses one boundary
    let kind = if be == "mmap" { "block_write" } else { "cqe" };
    verif::arm_failpoint(kind, a[4].parse().unwrap());
    let r = w.batch_append_for_topic("t", &batch);
    println!("batch result {:?}", r.map_err(|e| e.to_string()));
    println!("count after failed batch {}", w.get_topic_entry_count("t"));
    let r2 = w.append_for_topic("t", &vec![8u8; 222]);
    println!("later append {:?}", r2.map_err(|e| e.to_string()));
    let r3 = w.batch_append_for_topic("t", &[&e4[..333], &e4[..444]]);
    println!("later batch {:?} count {}", r3.map_err(|e| e.to_string()), w.get_topic_entry_count("t"));
    println!("peek batch {:?}", w.batch_read_for_topic("t", 1 << 30, false, None).map(|v| v.iter().map(|e| e.data.len()).collect::<Vec<_>>()).map_err(|e| e.to_string()));
    if std::env::var("NODRAIN").is_err() { println!("drain in-process {:?} (expect [111, 222, 333, 444])", drain(&w, "t")); }
    drop(w);
    let w = open();
    println!("after reopen count {} drain {:?}", w.get_topic_entry_count("t"), drain(&w, "t"));
    std::process::exit(0);
}
