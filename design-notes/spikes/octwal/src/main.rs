#![allow(dead_code, unused)]
mod error {
    #[derive(Debug)] pub enum OctopiiError { Wal(String), Io(std::io::Error) }
    impl std::fmt::Display for OctopiiError { fn fmt(&self, f: &mut std::fmt::Formatter<'_>) -> std::fmt::Result { write!(f, "{:?}", self) } }
    impl std::error::Error for OctopiiError {}
    pub type Result<T> = std::result::Result<T, OctopiiError>;
}
#[path = "/repo/octopii/src/wal/mod.rs"] mod wal;
use bytes::Bytes;
fn main() {
    std::env::set_var("WALRUS_QUIET", "1");
    let dir = std::path::PathBuf::from(std::env::args().nth(1).unwrap());
    let life: u32 = std::env::args().nth(2).unwrap().parse().unwrap();
    tokio::block_on(async move {
        let w = wal::WriteAheadLog::new(dir.join("openraft_log"), 10, tokio::time::Duration::from_millis(100)).await.unwrap();
        let got = w.read_all().await.unwrap();
        println!("life {} recovered {} records: {:?}", life, got.len(), got.iter().map(|b| String::from_utf8_lossy(b).into_owned()).collect::<Vec<_>>());
        for i in 0..3 { w.append(Bytes::from(format!("rec-{}-{}", life, i))).await.unwrap(); }
    });
    std::process::exit(0);
}
