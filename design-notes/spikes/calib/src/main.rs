use walrus_rust::*;
use std::path::PathBuf;
fn open(dir:&str, key:&str) -> Walrus {
    Walrus::builder().data_dir(PathBuf::from(dir)).key(key)
        .consistency(ReadConsistency::StrictlyAtOnce)
        .fsync_schedule(FsyncSchedule::NoFsync).build().unwrap()
}
fn main() {
    std::env::set_var("WALRUS_QUIET","1");
    let args: Vec<String> = std::env::args().collect();
    let scen = args[1].as_str();
    let dir = args[2].as_str();
    if args.len() > 3 && args[3] == "mmap" { disable_fd_backend(); }
    match scen {
        // C01: budget ends inside sealed block while tail holds entries
        "c01a" => {
            let w = open(dir,"k");
            let payload = vec![7u8;100];
            // fill one block and a bit (10MiB/356 = 29454 entries)
            let mut n=0u64;
            for i in 0..29454+50u64 { let mut p=payload.clone(); p[..8].copy_from_slice(&i.to_le_bytes()); w.append_for_topic("t",&p).unwrap(); n+=1; }
            let mut next=0u64; let mut reads=0;
            loop {
                let es = w.batch_read_for_topic("t",1000,true,None).unwrap();
                if es.is_empty() {break;}
                for e in es { let mut b=[0u8;8]; b.copy_from_slice(&e.data[..8]); let id=u64::from_le_bytes(b); if id!=next { println!("GAP expected {} got {} after {} reads", next,id,reads); next=id; } next+=1; }
                reads+=1;
                if reads>5 {break;}
            }
            println!("appended {} next {}", n, next);
        }
        // empty entries via batch read
        "c01b" => {
            let w = open(dir,"k");
            w.append_for_topic("t",b"a").unwrap();
            w.append_for_topic("t",b"").unwrap();
            w.append_for_topic("t",b"c").unwrap();
            let es = w.batch_read_for_topic("t",1<<20,true,None).unwrap();
            println!("got {} entries: {:?} count={}", es.len(), es.iter().map(|e|e.data.clone()).collect::<Vec<_>>(), w.get_topic_entry_count("t"));
        }
        // C03: budget 0 on sealed; usize::MAX mid-block
        "c03" => {
            let w = open(dir,"k");
            let big = vec![1u8; 6<<20];
            w.append_for_topic("t",&big).unwrap();
            w.append_for_topic("t",b"small1").unwrap();
            w.append_for_topic("t",&big).unwrap(); // forces seal: block1 has big+small1
            let r = w.batch_read_for_topic("t",0,true,None).unwrap();
            println!("budget0 sealed -> {} entries", r.len());
            let r = w.read_next("t",true).unwrap(); println!("read_next {:?}", r.map(|e|e.data.len()));
            let r = std::panic::catch_unwind(std::panic::AssertUnwindSafe(|| w.batch_read_for_topic("t",usize::MAX,true,None)));
            match r { Ok(Ok(v)) => println!("usize::MAX midblock -> {:?}", v.iter().map(|e|e.data.len()).collect::<Vec<_>>()), Ok(Err(e))=>println!("err {e}"), Err(_)=>println!("PANIC") }
            let r = w.batch_read_for_topic("t",usize::MAX,true,None); println!("again -> {:?}", r.map(|v|v.iter().map(|e|e.data.len()).collect::<Vec<_>>()));
        }
        // C06: big entry then reopen
        "c06a" => {
            { let w = open(dir,"k");
              w.append_for_topic("t",b"first").unwrap();
              let big = vec![0x55u8; 15<<20];
              w.append_for_topic("t",&big).unwrap();
              w.append_for_topic("t",b"last").unwrap();
              println!("count before {}", w.get_topic_entry_count("t")); }
            let w = open(dir,"k");
            println!("count after {}", w.get_topic_entry_count("t"));
            loop { match w.read_next("t",true).unwrap() { Some(e)=>println!("  entry len {}", e.data.len()), None=>break } }
        }
        // C06: rejected first append leaves zero block; other topic lost after reopen
        "c06b" => {
            { let w = open(dir,"k");
              let too: Vec<&[u8]> = std::iter::repeat(b"x".as_slice()).take(2001).collect();
              println!("rejected: {:?}", w.batch_append_for_topic("a",&too).is_err());
              w.append_for_topic("b",b"b1").unwrap(); w.append_for_topic("b",b"b2").unwrap();
              println!("count b before {}", w.get_topic_entry_count("b")); }
            let w = open(dir,"k");
            println!("count b after {}", w.get_topic_entry_count("b"));
            println!("read b {:?}", w.read_next("b",true).unwrap().map(|e|e.data));
        }
        // C14
        "c14" => {
            for key in ["..", ".", "...", "a/../b", ""] {
                let r = Walrus::builder().data_dir(PathBuf::from(dir).join("data")).key(key).fsync_schedule(FsyncSchedule::NoFsync).build();
                println!("key {:?} ok={}", key, r.is_ok());
                if let Ok(w)=r { w.append_for_topic("t",b"x").unwrap(); }
            }
        }
        // C17
        "c17" => {
            { let w = open(dir,"k"); w.append_for_topic("t",b"x").unwrap(); println!("clean? {}", w.topic_is_clean("t")); }
            { let w = open(dir,"k"); println!("after reopen clean? {} (expect false)", w.topic_is_clean("t")); std::thread::sleep(std::time::Duration::from_millis(50)); }
        }
        // C02: peek then consume compare; peeks counting checkpoints
        "c02" => {
            let w = open(dir,"k");
            let big = vec![1u8; 4<<20];
            for _ in 0..5 { w.append_for_topic("t",&big).unwrap(); }
            for budget in [1usize, 5<<20, 9<<20, 20<<20] {
              let p = w.batch_read_for_topic("t",budget,false,None).unwrap();
              let c = w.batch_read_for_topic("t",budget,true,None).unwrap();
              println!("budget {} peek {} consume {}", budget, p.len(), c.len());
            }
        }
        // C04 long topic name via batch
        "c04" => {
            let w = open(dir,"k");
            let long = "x".repeat(300);
            println!("single: {:?}", w.append_for_topic(&long,b"a").map_err(|e|e.to_string()));
            let r = std::panic::catch_unwind(std::panic::AssertUnwindSafe(|| w.batch_append_for_topic(&long,&[b"a".as_slice()])));
            println!("batch: {:?}", r.map(|r|r.map_err(|e|e.to_string())).map_err(|_|"PANIC"));
            println!("after: {:?}", w.append_for_topic(&long,b"a").map_err(|e|e.to_string()));
        }
        _ => {}
    }
}
