#![allow(dead_code)]
#[path = "/var/tmp/vt/repo-scratch2/distributed-walrus/src/bucket.rs"] mod bucket;
#[path = "/var/tmp/vt/repo-scratch2/distributed-walrus/src/client.rs"] mod client;
#[path = "/var/tmp/vt/repo-scratch2/distributed-walrus/src/config.rs"] mod config;
#[path = "/var/tmp/vt/repo-scratch2/distributed-walrus/src/controller/mod.rs"] mod controller;
#[path = "/var/tmp/vt/repo-scratch2/distributed-walrus/src/metadata.rs"] mod metadata;
#[path = "/var/tmp/vt/repo-scratch2/distributed-walrus/src/monitor.rs"] mod monitor;
#[path = "/var/tmp/vt/repo-scratch2/distributed-walrus/src/rpc.rs"] mod rpc;
pub mod verif_events {
    use std::sync::Mutex;
    pub static LOG: Mutex<Vec<(String, String)>> = Mutex::new(Vec::new());
    pub fn record(kind: &str, key: &str) { LOG.lock().unwrap().push((kind.to_string(), key.to_string())); }
    pub fn sched_point(_site: &str) { if std::env::var("VERIF_DELAY").is_ok() { std::thread::yield_now(); std::thread::sleep(std::time::Duration::from_micros(200)); } }
}
use std::io::{Read, Write};
use std::sync::Arc;
fn send(s: &mut std::net::TcpStream, cmd: &str) -> String {
    s.write_all(&(cmd.len() as u32).to_le_bytes()).unwrap(); s.write_all(cmd.as_bytes()).unwrap();
    let mut l = [0u8; 4]; s.read_exact(&mut l).unwrap(); let mut b = vec![0u8; u32::from_le_bytes(l) as usize]; s.read_exact(&mut b).unwrap(); String::from_utf8_lossy(&b).into_owned()
}
fn main() {
    std::env::set_var("WALRUS_QUIET", "1");
    std::env::set_var("WALRUS_MAX_SEGMENT_ENTRIES", "2");
    let dir = std::env::args().nth(1).unwrap();
    tokio::block_on(async move {
        let bucket = Arc::new(bucket::Storage::new(std::path::PathBuf::from(&dir).join("n1")).await.unwrap());
        let md = Arc::new(metadata::Metadata::new());
        let cluster = octopii::Cluster::new();
        let raft = cluster.add_node(1, "127.0.0.1:7001".parse().unwrap(), md.clone());
        let ctl = Arc::new(controller::NodeController { node_id: 1, bucket, metadata: md.clone(), raft: raft.clone(),
            offsets: Arc::new(tokio::sync::RwLock::new(Default::default())), read_cursors: Arc::new(tokio::sync::Mutex::new(Default::default())),
            test_fail_forward_read: false.into(), test_fail_monitor: false.into(), test_fail_dir_size: false.into() });
        ctl.upsert_node(1, "127.0.0.1:7001".into()).await.unwrap();
        let c2 = ctl.clone();
        tokio::spawn(async move { let _ = client::start_client_listener(c2, "127.0.0.1:7101".into()).await; });
        std::thread::sleep(std::time::Duration::from_millis(200));
        ctl.ensure_topic("t").await.unwrap();
        let mut hs = vec![];
        for p in 0..3u32 { let c = ctl.clone(); hs.push(std::thread::spawn(move || tokio::block_on(async move { let mut acked = vec![]; for i in 0..40u32 { let m = format!("p{}-{}", p, i); if c.append_for_topic("t", m.clone().into_bytes()).await.is_ok() { acked.push(m); } } acked }))); }
        let acked: Vec<String> = hs.into_iter().flat_map(|h| h.join().unwrap()).collect();
        let mut got = vec![]; let mut empties = 0;
        while empties < 3 { match ctl.read_one_for_topic_shared("t").await.unwrap() { Some(b) => { got.push(String::from_utf8(b).unwrap()); empties = 0; } None => empties += 1 } }
        let mut lost: Vec<&String> = acked.iter().filter(|a| !got.contains(a)).collect(); lost.sort();
        let mut g2 = got.clone(); g2.sort(); let n = g2.len(); g2.dedup();
        println!("acked={} delivered={} dup={} lost={} e.g. {:?}", acked.len(), got.len(), n - g2.len(), lost.len(), &lost[..lost.len().min(5)]);
        println!("state {}", &ctl.topic_snapshot("t").unwrap()[..60]);
        let log = verif_events::LOG.lock().unwrap().clone();
        let mut sealed_at: std::collections::HashMap<String, usize> = Default::default(); let mut viol = 0; let mut writes = 0; let mut ex = vec![];
        for (i, (k, key)) in log.iter().enumerate() { match k.as_str() { "applied_seal" => { sealed_at.insert(key.clone(), i); } "write_begin" => { writes += 1; if let Some(s) = sealed_at.get(key) { viol += 1; if ex.len() < 3 { ex.push(format!("{} sealed@{} write_begin@{}", key, s, i)); } } } _ => {} } }
        println!("events {} writes {} write-after-seal violations {} e.g. {:?}", log.len(), writes, viol, ex);
    });
    std::process::exit(0);
}
