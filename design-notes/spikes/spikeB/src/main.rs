use std::io::Write;
use walrus_rust::wal::verif;
use walrus_rust::*;
fn pay(tag: u64, len: usize) -> Vec<u8> { let mut v = Vec::with_capacity(len); let h = [tag.to_le_bytes(), (len as u64).to_le_bytes()].concat(); while v.len() < len { let b = h[v.len() % 16] ^ ((v.len() / 16) as u8); v.push(b); } v }
fn say(s: String) { let mut o = std::io::stdout().lock(); writeln!(o, "{}", s).unwrap(); o.flush().unwrap(); }
fn main() {
    std::env::set_var("WALRUS_QUIET", "1");
    let a: Vec<String> = std::env::args().collect();
    let dir = a[2].clone();
    let strict = a.get(4).map(|s| s == "strict").unwrap_or(true);
    let mode = if strict { ReadConsistency::StrictlyAtOnce } else { ReadConsistency::AtLeastOnce { persist_every: 3 } };
    if a.get(5).map(|s| s == "mmap").unwrap_or(false) { disable_fd_backend(); }
    let open = || Walrus::builder().data_dir(dir.clone().into()).key("k").consistency(mode).fsync_schedule(FsyncSchedule::NoFsync).build().unwrap();
    match a[1].as_str() {
        "work" => {
            let crash_at: u64 = a[3].parse().unwrap();
            verif::set_crash_at(crash_at);
            let w = open();
            say(format!("OPENED events={}", verif::event_count()));
            // ops: (kind, topic, tag, len | n)
            let tag = std::cell::Cell::new(0u64); let i = std::cell::Cell::new(0u64);
            let ap = |w: &Walrus, t: &str, len: usize| { tag.set(tag.get()+1); i.set(i.get()+1); say(format!("CALL {} append {} {} {}", i.get(), t, tag.get(), len)); let r = w.append_for_topic(t, &pay(tag.get(), len)); say(format!("RET {} {}", i.get(), r.is_ok())); };
            for _ in 0..3 { ap(&w, "a", 100); }
            ap(&w, "b", 50);
            ap(&w, "a", 6 << 20);
            { i.set(i.get()+1); let lens = [10usize, 20, 30]; let ps: Vec<Vec<u8>> = lens.iter().map(|l| { tag.set(tag.get()+1); pay(tag.get(), *l) }).collect(); let refs: Vec<&[u8]> = ps.iter().map(|p| p.as_slice()).collect();
              say(format!("CALL {} batch a {} {}", i.get(), tag.get() - 2, 3)); let r = w.batch_append_for_topic("a", &refs); say(format!("RET {} {}", i.get(), r.is_ok())); }
            for _ in 0..2 { i.set(i.get()+1); say(format!("CALL {} read a", i.get())); let r = w.read_next("a", true).unwrap(); say(format!("RET {} {:?}", i.get(), r.map(|e| (u64::from_le_bytes(e.data[..8].try_into().unwrap()), e.data.len())))); }
            ap(&w, "a", 6 << 20); // rotation
            ap(&w, "a", 200);
            for _ in 0..5 { i.set(i.get()+1); say(format!("CALL {} read a", i.get())); let r = w.read_next("a", true).unwrap(); say(format!("RET {} {:?}", i.get(), r.map(|e| (u64::from_le_bytes(e.data[..8].try_into().unwrap()), e.data.len())))); }
            { i.set(i.get()+1); say(format!("CALL {} bread a", i.get())); let r = w.batch_read_for_topic("a", 1 << 30, true, None).unwrap(); say(format!("RET {} {:?}", i.get(), r.iter().map(|e| (u64::from_le_bytes(e.data[..8].try_into().unwrap()), e.data.len())).collect::<Vec<_>>())); }
            ap(&w, "b", 60);
            say(format!("DONE events={}", verif::event_count()));
        }
        "recover" => {
            let w = open();
            for t in ["a", "b"] { let mut v = vec![]; while let Some(e) = w.read_next(t, true).unwrap() { let ok = e.data == pay(u64::from_le_bytes(e.data[..8].try_into().unwrap()), e.data.len()); v.push((u64::from_le_bytes(e.data[..8].try_into().unwrap()), e.data.len(), ok)); }
                say(format!("TOPIC {} count_before_drain=? entries={:?}", t, v)); }
        }
        _ => {}
    }
    std::process::exit(0);
}
