use walrus_rust::wal::{verif, verif_file_states};
use walrus_rust::*;
fn main() {
    std::env::set_var("WALRUS_QUIET", "1");
    let a: Vec<String> = std::env::args().collect();
    let dir = a[2].clone();
    let open = |key: &str| Walrus::builder().data_dir(dir.clone().into()).key(key).consistency(ReadConsistency::StrictlyAtOnce).fsync_schedule(FsyncSchedule::Milliseconds(1)).build().unwrap();
    let big = vec![7u8; 6 << 20];
    match a[1].as_str() {
        "c12" => {
            verif::set_trace(true);
            let w = open("k");
            let t0 = std::time::Instant::now();
            for i in 0..51 { w.append_for_topic("x", &big).unwrap(); w.append_for_topic("y", &big).unwrap(); if i == 0 { println!("first pair {:?}", t0.elapsed()); } }
            println!("filled {:?}", t0.elapsed());
            for s in verif_file_states() { println!("state {:?}", s); }
            // consume x exactly through its sealed chain (50 sealed blocks, 1 tail entry)
            let mut n = 0; for _ in 0..50 { if w.read_next("x", true).unwrap().is_some() { n += 1; } }
            println!("consumed x {} {:?}", n, t0.elapsed());
            for s in verif_file_states() { println!("state {:?}", s); }
            for _ in 0..60 { let _ = w.batch_read_for_topic("x", 1, false, None).unwrap(); }
            println!("after 60 peeks");
            for s in verif_file_states() { println!("state {:?}", s); }
            let tr = verif::take_trace(); for l in tr.iter().filter(|l| l.contains("deletion") || l.contains("file_remove")) { println!("EV {}", l); }
            let t1 = std::time::Instant::now();
            loop { std::thread::sleep(std::time::Duration::from_millis(100)); let tr = verif::take_trace(); let rm: Vec<_> = tr.iter().filter(|l| l.contains("file_remove")).collect(); if !rm.is_empty() { println!("EV {:?} after {:?}", rm, t1.elapsed()); break; } if t1.elapsed().as_secs() > 20 { println!("no removal in 20s"); break; } }
            println!("y count in-process {}", w.get_topic_entry_count("y"));
            println!("y first read in-process {:?}", w.read_next("y", false).unwrap().map(|e| e.data.len()));
        }
        "c12check" => { let w = open("k"); println!("after restart: y count {} x count {}", w.get_topic_entry_count("y"), w.get_topic_entry_count("x")); }
        "c13" => {
            // instance A: fill file with x/y, nothing consumed. instance B: same shape; consume everything in B.
            let wa = open("A"); let wb = open("B");
            for _ in 0..51 { wa.append_for_topic("x", &big).unwrap(); wa.append_for_topic("y", &big).unwrap(); }
            for _ in 0..51 { wb.append_for_topic("x", &big).unwrap(); wb.append_for_topic("y", &big).unwrap(); }
            for s in verif_file_states() { println!("state {:?}", s); }
            verif::set_trace(true);
            let mut n = 0; for t in ["x", "y"] { while wb.read_next(t, true).unwrap().is_some() { n += 1; } }
            println!("B consumed {}", n);
            for s in verif_file_states() { println!("state {:?}", s); }
            for l in verif::take_trace().iter().filter(|l| l.contains("deletion")) { println!("EV {}", l); }
        }
        _ => {}
    }
    std::process::exit(0);
}
