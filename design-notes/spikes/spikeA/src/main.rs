use std::sync::{Arc, Condvar, Mutex};
use walrus_rust::wal::verif;
use walrus_rust::*;

// Token scheduler: only the thread whose id == cur runs. At a sched point a thread yields; the controller
// picks the next runnable thread from `choices` (forced prefix) then thread 0 first (DFS default).
struct Ctl { st: Mutex<St>, cv: Condvar }
struct St { cur: Option<usize>, runnable: Vec<bool>, waiting: Vec<bool>, forced: Vec<usize>, trace: Vec<(usize, usize)>, /* (choice, nopts) */ }
thread_local!(static TID: std::cell::Cell<Option<usize>> = std::cell::Cell::new(None));
impl Ctl {
    fn pick(&self, st: &mut St) {
        let opts: Vec<usize> = (0..st.runnable.len()).filter(|&i| st.runnable[i]).collect();
        if opts.is_empty() { st.cur = None; return; }
        let step = st.trace.len();
        let c = if step < st.forced.len() { st.forced[step] } else { 0 };
        let c = c.min(opts.len() - 1);
        st.trace.push((c, opts.len()));
        st.cur = Some(opts[c]);
    }
    fn yield_point(&self, tid: usize) {
        let mut st = self.st.lock().unwrap();
        self.pick(&mut st);
        self.cv.notify_all();
        while st.cur != Some(tid) { st = self.cv.wait(st).unwrap(); }
    }
    fn start(&self, tid: usize) { let mut st = self.st.lock().unwrap(); st.waiting[tid] = true; self.cv.notify_all(); while st.cur != Some(tid) { st = self.cv.wait(st).unwrap(); } }
    fn finish(&self, tid: usize) { let mut st = self.st.lock().unwrap(); st.runnable[tid] = false; self.pick(&mut st); self.cv.notify_all(); }
}
fn run_schedule(w: &Arc<Walrus>, topic: &str, forced: Vec<usize>) -> (Vec<(usize, usize)>, Vec<Vec<Vec<u8>>>) {
    let n = 2;
    let ctl = Arc::new(Ctl { st: Mutex::new(St { cur: None, runnable: vec![true; n], waiting: vec![false; n], forced, trace: vec![] }), cv: Condvar::new() });
    let c2 = ctl.clone();
    verif::install_scheduler(Some(Arc::new(move |_site| { if let Some(t) = TID.with(|t| t.get()) { c2.yield_point(t); } })));
    let mut hs = vec![];
    for tid in 0..n {
        let w = w.clone(); let ctl = ctl.clone(); let topic = topic.to_string();
        hs.push(std::thread::spawn(move || {
            TID.with(|t| t.set(Some(tid)));
            ctl.start(tid);
            let mut got = vec![];
            for _ in 0..2 { if let Some(e) = w.read_next(&topic, true).unwrap() { got.push(e.data); } }
            ctl.finish(tid);
            got
        }));
    }
    { // wait for all to be waiting, then pick first
        let mut st = ctl.st.lock().unwrap();
        while !st.waiting.iter().all(|&b| b) { st = ctl.cv.wait(st).unwrap(); }
        ctl.pick(&mut st); ctl.cv.notify_all();
    }
    let res: Vec<_> = hs.into_iter().map(|h| h.join().unwrap()).collect();
    verif::install_scheduler(None);
    let tr = ctl.st.lock().unwrap().trace.clone();
    (tr, res)
}
fn main() {
    std::env::set_var("WALRUS_QUIET", "1");
    let dir = std::env::args().nth(1).unwrap();
    let w = Arc::new(Walrus::builder().data_dir(dir.into()).key("k").fsync_schedule(FsyncSchedule::NoFsync).build().unwrap());
    // DFS over schedules
    let mut stack: Vec<Vec<usize>> = vec![vec![]];
    let (mut nsched, mut dups, mut lost) = (0, 0, 0);
    let t0 = std::time::Instant::now();
    let mut first_dup = None;
    while let Some(forced) = stack.pop() {
        let topic = format!("t{}", nsched);
        for i in 0..3u8 { w.append_for_topic(&topic, &[b'e', i]).unwrap(); }
        let (trace, res) = run_schedule(&w, &topic, forced.clone());
        nsched += 1; if nsched % 200 == 0 { eprintln!("n={} stack={} tracelen={}", nsched, stack.len(), trace.len()); }
        // expand: for each step beyond forced prefix, alternatives
        for i in forced.len()..trace.len() { for alt in 1..trace[i].1 { let mut f: Vec<usize> = trace[..i].iter().map(|x| x.0).collect(); f.push(alt); stack.push(f); } }
        let mut all: Vec<Vec<u8>> = res.iter().flatten().cloned().collect();
        while let Some(e) = w.read_next(&topic, true).unwrap() { all.push(e.data); }
        let mut s = all.clone(); s.sort(); let before = s.len(); s.dedup();
        if s.len() != before { dups += 1; if first_dup.is_none() { first_dup = Some((trace.clone(), res.clone())); } }
        if s.len() != 3 { lost += 1; }
        if nsched >= 3000 { break; }
    }
    println!("schedules={} dup_histories={} lost_histories={} elapsed={:?}", nsched, dups, lost, t0.elapsed());
    println!("first dup: {:?}", first_dup);
}
