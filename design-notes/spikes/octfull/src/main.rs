#![allow(dead_code, unused)]
mod error {
    #[derive(Debug)] pub enum OctopiiError { Wal(String), Io(std::io::Error) }
    impl std::fmt::Display for OctopiiError { fn fmt(&self, f: &mut std::fmt::Formatter<'_>) -> std::fmt::Result { write!(f, "{:?}", self) } }
    impl std::error::Error for OctopiiError {}
    pub type Result<T> = std::result::Result<T, OctopiiError>;
}
#[path = "/repo/octopii/src/wal/mod.rs"] mod wal;
#[path = "/repo/octopii/src/state_machine.rs"] mod state_machine;
mod openraft {
    #[path = "/repo/octopii/src/openraft/types.rs"] pub mod types;
    #[path = "/repo/octopii/src/openraft/storage.rs"] pub mod storage;
}
use crate::openraft::storage::*;
use crate::openraft::types::*;
use crate::state_machine::{KvStateMachine, StateMachineTrait};
use ::openraft::storage::{RaftSnapshotBuilder, RaftStateMachine, Responder, IOFlushed, RaftLogStorage};
use ::openraft::{Entry, EntryPayload, LogId, RaftLogReader};
use std::sync::Arc;
fn main() {
    std::env::set_var("WALRUS_QUIET", "1");
    tokio::block_on(async {
        // C20 part 2 shape: apply through adapter A, snapshot, install into adapter B, compare app state
        let app_a: Arc<KvStateMachine> = Arc::new(KvStateMachine::in_memory());
        let app_b: Arc<KvStateMachine> = Arc::new(KvStateMachine::in_memory());
        let mut a = new_mem_state_machine(app_a.clone());
        let mut b = new_mem_state_machine(app_b.clone());
        let ents: Vec<Result<(Entry<AppTypeConfig>, Option<Responder<AppTypeConfig>>), std::io::Error>> = (1..=3u64).map(|i| Ok((Entry { log_id: LogId::new(1, 1, i), payload: EntryPayload::Normal(AppEntry(format!("SET k{} v{}", i, i).into_bytes())) }, None))).collect();
        a.apply(futures::stream::iter(ents)).await.unwrap();
        println!("A k2 = {:?}", app_a.apply(b"GET k2"));
        let snap = a.build_snapshot().await.unwrap();
        println!("snapshot bytes {}", snap.snapshot.get_ref().len());
        b.install_snapshot(&snap.meta, snap.snapshot).await.unwrap();
        println!("B k2 after install = {:?}", app_b.apply(b"GET k2"));
        println!("app snapshots equal: {}", app_a.snapshot() == app_b.snapshot());
    });
    // C21 store layer: WalLogStore across lifetimes
    let dir = std::path::PathBuf::from(std::env::args().nth(1).unwrap());
    tokio::block_on(async move {
        let w = Arc::new(wal::WriteAheadLog::new(dir.join("openraft_log"), 10, tokio::time::Duration::from_millis(100)).await.unwrap());
        let mut st = new_wal_log_store(w).await.unwrap();
        let ls = st.get_log_state().await.unwrap();
        println!("recovered log state {:?} vote {:?}", ls, st.read_vote().await.unwrap());
        let next = ls.last_log_id.map(|l| l.index + 1).unwrap_or(1);
        st.append(vec![Entry { log_id: LogId::new(1, 1, next), payload: EntryPayload::Blank }], IOFlushed::new()).await.unwrap();
        st.save_vote(&::openraft::Vote { leader_id: ::openraft::LeaderId { term: next, node_id: 1 }, committed: true }).await.unwrap();
    });
    std::process::exit(0);
}
