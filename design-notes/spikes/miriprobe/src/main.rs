use std::alloc::{GlobalAlloc, Layout, System};
struct Align16;
unsafe impl GlobalAlloc for Align16 {
    unsafe fn alloc(&self, l: Layout) -> *mut u8 { System.alloc(Layout::from_size_align_unchecked(l.size(), l.align().max(16))) }
    unsafe fn dealloc(&self, p: *mut u8, l: Layout) { System.dealloc(p, Layout::from_size_align_unchecked(l.size(), l.align().max(16))) }
    unsafe fn realloc(&self, p: *mut u8, l: Layout, n: usize) -> *mut u8 { System.realloc(p, Layout::from_size_align_unchecked(l.size(), l.align().max(16)), n) }
    unsafe fn alloc_zeroed(&self, l: Layout) -> *mut u8 { System.alloc_zeroed(Layout::from_size_align_unchecked(l.size(), l.align().max(16))) }
}
#[global_allocator]
static A: Align16 = Align16;
use walrus_rust::*;
fn main() {
    std::env::set_var("WALRUS_QUIET", "1");
    let dir = std::env::args().nth(1).unwrap();
    let open = || Walrus::builder().data_dir(dir.clone().into()).key("k").fsync_schedule(FsyncSchedule::NoFsync).build().unwrap();
    enable_fd_backend();
    {
        let w = open();
        for i in 0..6u8 { w.append_for_topic("t", &[i; 40]).unwrap(); }
        w.append_for_topic("u", b"uu").unwrap();
        println!("rn {:?}", w.read_next("t", true).unwrap().map(|e| e.data[0]));
        disable_fd_backend();
        println!("br {:?}", w.batch_read_for_topic("t", 100, true, None).unwrap().iter().map(|e| e.data[0]).collect::<Vec<_>>());
        enable_fd_backend();
    }
    {
        let w = open();
        println!("count after reopen {}", w.get_topic_entry_count("t"));
        disable_fd_backend();
        println!("br2 {:?}", w.batch_read_for_topic("t", 1 << 20, true, None).unwrap().iter().map(|e| e.data[0]).collect::<Vec<_>>());
        println!("st {:?}", w.batch_read_for_topic("u", 1 << 20, false, Some(0)).unwrap().len());
    }
    println!("done");
}
