// Free-running stress: P producers (unique tags, occasional 3 MiB payloads -> rotations), C consumers mixing
// read_next and batch_read (consuming). Oracle: exactly-once, per-producer order within each consumer, no invention.
use std::sync::{atomic::{AtomicBool, AtomicU64, Ordering}, Arc};
use walrus_rust::*;
fn main() {
    std::env::set_var("WALRUS_QUIET", "1");
    let a: Vec<String> = std::env::args().collect();
    let dir = a[1].clone(); let rounds: u64 = a[2].parse().unwrap(); let use_batch = a[3] == "batch"; let strict = a[4] == "strict";
    let mode = if strict { ReadConsistency::StrictlyAtOnce } else { ReadConsistency::AtLeastOnce { persist_every: 5 } };
    let (mut tot_dup, mut tot_lost, mut tot_ord) = (0, 0, 0);
    for round in 0..rounds {
        let w = Arc::new(Walrus::builder().data_dir(dir.clone().into()).key(&format!("k{}", round)).consistency(mode).fsync_schedule(FsyncSchedule::NoFsync).build().unwrap());
        let done = Arc::new(AtomicBool::new(false)); let acked = Arc::new(AtomicU64::new(0));
        let mut ps = vec![];
        for p in 0..2u64 { let w = w.clone(); let acked = acked.clone(); ps.push(std::thread::spawn(move || { let mut n = 0u64; for i in 0..120u64 { let big: bool = std::env::var("NOBIG").is_err(); let len = if big && i % 17 == 5 { 3 << 20 } else { 24 + (i % 50) as usize }; let mut v = vec![0u8; len]; v[..8].copy_from_slice(&p.to_le_bytes()); v[8..16].copy_from_slice(&i.to_le_bytes()); if w.append_for_topic("t", &v).is_ok() { n += 1; acked.fetch_add(1, Ordering::SeqCst); } else { panic!("append failed"); } } n })); }
        let mut cs = vec![];
        let ncons: usize = a.get(5).map(|x| x.parse().unwrap()).unwrap_or(2);
        for c in 0..ncons { let w = w.clone(); let done = done.clone(); cs.push(std::thread::spawn(move || { let mut got: Vec<(u64, u64)> = vec![]; let mut idle = 0; loop {
                let es: Vec<Entry> = if use_batch && (c == 1 || std::env::var("ALLBATCH").is_ok()) { w.batch_read_for_topic("t", 5000, true, None).unwrap() } else { w.read_next("t", true).unwrap().into_iter().collect() };
                if es.is_empty() { if done.load(Ordering::SeqCst) { idle += 1; if idle > 3 { break; } } std::thread::yield_now(); } else { idle = 0; }
                for e in es { got.push((u64::from_le_bytes(e.data[..8].try_into().unwrap()), u64::from_le_bytes(e.data[8..16].try_into().unwrap()))); } }
            got })); }
        let total: u64 = ps.into_iter().map(|h| h.join().unwrap()).sum(); done.store(true, Ordering::SeqCst);
        let gots: Vec<Vec<(u64, u64)>> = cs.into_iter().map(|h| h.join().unwrap()).collect();
        let mut all: Vec<(u64, u64)> = gots.iter().flatten().cloned().collect();
        while let Some(e) = w.read_next("t", true).unwrap() { all.push((u64::from_le_bytes(e.data[..8].try_into().unwrap()), u64::from_le_bytes(e.data[8..16].try_into().unwrap()))); }
        if round == 0 { let mut seen: std::collections::HashMap<(u64,u64), Vec<(usize,usize)>> = Default::default(); for (ci, g) in gots.iter().enumerate() { for (pos, e) in g.iter().enumerate() { seen.entry(*e).or_default().push((ci, pos)); } }
            let mut dd: Vec<_> = seen.iter().filter(|(_, v)| v.len() > 1).collect(); dd.sort(); for (e, v) in dd.iter().take(12) { println!("  dup entry p{} seq {} at (consumer,pos) {:?}", e.0, e.1, v); } }
        let n = all.len(); all.sort(); let mut d = all.clone(); d.dedup();
        let dup = n - d.len(); let lost = total as usize - d.len();
        let mut ord = 0; for g in &gots { for p in 0..2u64 { let seqs: Vec<u64> = g.iter().filter(|x| x.0 == p).map(|x| x.1).collect(); if seqs.windows(2).any(|w| w[0] >= w[1]) { ord += 1; } } }
        tot_dup += dup; tot_lost += lost; tot_ord += ord;
        if dup + lost + ord > 0 && round < 3 { println!("round {} acked {} delivered {} dup {} lost {} order-violations {}", round, total, n, dup, lost, ord); }
    }
    println!("rounds {} batch={} strict={} total dup {} lost {} order {}", rounds, use_batch, strict, tot_dup, tot_lost, tot_ord);
    std::process::exit(0);
}
