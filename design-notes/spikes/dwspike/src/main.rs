#[path = "/repo/distributed-walrus/src/metadata.rs"]
mod metadata;
#[path = "/repo/distributed-walrus/src/controller/types.rs"]
mod types;
use metadata::*;
use octopii::StateMachineTrait;
use std::collections::HashMap;
fn check(m: &Metadata, hist: &mut HashMap<(String, u64), (u64, u64)>) -> Result<(), String> {
    for t in ["a", "b"] {
        if let Some(s) = m.get_topic_state(t) {
            let cur = s.current_segment;
            if cur == 0 { return Err("current 0".into()); }
            let mut keys: Vec<u64> = s.segment_leaders.keys().copied().collect(); keys.sort();
            if keys != (1..=cur).collect::<Vec<_>>() { return Err(format!("leaders keys {:?} cur {}", keys, cur)); }
            if s.segment_leaders[&cur] != s.leader_node { return Err("open leader".into()); }
            let mut sk: Vec<u64> = s.sealed_segments.keys().copied().collect(); sk.sort();
            if sk != (1..cur).collect::<Vec<_>>() { return Err(format!("sealed keys {:?} cur {}", sk, cur)); }
            let sum: u128 = s.sealed_segments.values().map(|v| *v as u128).sum();
            if sum != s.last_sealed_entry_offset as u128 { return Err(format!("offset {} sum {}", s.last_sealed_entry_offset, sum)); }
            for seg in 1..cur { let now = (s.sealed_segments[&seg], s.segment_leaders[&seg]); let e = hist.entry((t.to_string(), seg)).or_insert(now); if *e != now { return Err(format!("sealed seg {} changed {:?} -> {:?}", seg, e, now)); } }
        }
    }
    Ok(())
}
fn main() {
    let c = |cmd: MetadataCmd| bincode::serialize(&cmd).unwrap();
    let mut alpha: Vec<(String, Vec<u8>)> = vec![];
    for t in ["a", "b"] { for l in 1..=3u64 { alpha.push((format!("C{}{}", t, l), c(MetadataCmd::CreateTopic { name: t.into(), initial_leader: l }))); } }
    for t in ["a", "b", "zz"] { for l in 1..=3u64 { for n in [0u64, 3, u64::MAX] { alpha.push((format!("R{}{}:{}", t, l, n), c(MetadataCmd::RolloverTopic { name: t.into(), new_leader: l, sealed_segment_entry_count: n }))); } } }
    alpha.push(("U1".into(), c(MetadataCmd::UpsertNode { node_id: 1, addr: "x".into() })));
    alpha.push(("bad".into(), vec![9, 9, 9]));
    println!("alphabet {}", alpha.len());
    let depth: usize = std::env::args().nth(1).unwrap().parse().unwrap();
    let mut idx = vec![0usize; depth]; let mut n = 0u64; let mut viol = 0u64; let mut panics = 0u64; let mut first: Option<String> = None;
    loop {
        let m = Metadata::new(); let mut hist = HashMap::new(); let mut seq = vec![];
        for &i in &idx {
            seq.push(alpha[i].0.clone());
            let r = std::panic::catch_unwind(std::panic::AssertUnwindSafe(|| m.apply(&alpha[i].1)));
            if r.is_err() { panics += 1; if first.is_none() { first = Some(format!("PANIC at {:?}", seq)); } break; }
            if let Err(e) = check(&m, &mut hist) { viol += 1; if first.is_none() { first = Some(format!("{} at {:?}", e, seq)); } break; }
        }
        n += 1;
        let mut k = depth; loop { if k == 0 { break; } k -= 1; idx[k] += 1; if idx[k] < alpha.len() { break; } idx[k] = 0; if k == 0 { k = usize::MAX; break; } }
        if k == usize::MAX { break; }
    }
    println!("depth {} sequences {} violations {} panics {} first {:?}", depth, n, viol, panics, first);
    // C25 quick
    let mut bad = 0; let chars = ['t', 's', '_', '0', '1', 'a']; let mut cnt = 0u64;
    let mut stack = vec![String::new()];
    while let Some(s) = stack.pop() { for seg in [0u64, 1, 9, 10, u64::MAX] { cnt += 1; if types::parse_wal_key(&types::wal_key(&s, seg)) != Some((s.clone(), seg)) { bad += 1; } } if s.len() < 6 { for c in chars { let mut t = s.clone(); t.push(c); stack.push(t); } } }
    println!("C25 pairs {} bad {}", cnt, bad);
}
