"""Shared infrastructure: builds, scratch space, parallel map, verdicts, evidence, known findings."""
import json, os, random, shutil, subprocess, sys, time, hashlib, traceback
from concurrent.futures import ProcessPoolExecutor, as_completed

VERIF = os.path.dirname(os.path.dirname(os.path.abspath(__file__)))
REPO = os.environ.get('VERIF_REPO', '/repo')
BUILD = os.path.join(VERIF, '.build')
NCPU = int(os.environ.get('VERIF_JOBS', '16'))

def log(*a):
    print(*a, file=sys.stderr, flush=True)

# ---------------------------------------------------------------------------------------------
# scratch space (tmpfs preferred; 1 GiB sparse WAL files live here)
_scratch_root = None
def scratch_root():
    global _scratch_root
    if _scratch_root is None:
        base = '/dev/shm' if os.path.isdir('/dev/shm') and os.access('/dev/shm', os.W_OK) else os.path.join(VERIF, '.scratch')
        _scratch_root = os.path.join(base, f'verif-{os.getpid()}')
        os.makedirs(_scratch_root, exist_ok=True)
    return _scratch_root

def set_scratch_root(p):
    global _scratch_root
    _scratch_root = p

def cleanup_scratch():
    if _scratch_root and os.path.isdir(_scratch_root):
        shutil.rmtree(_scratch_root, ignore_errors=True)

_dir_ctr = 0
def fresh_dir(tag='d'):
    global _dir_ctr
    _dir_ctr += 1
    d = os.path.join(scratch_root(), f'{tag}-{os.getpid()}-{_dir_ctr}')
    shutil.rmtree(d, ignore_errors=True)
    os.makedirs(d)
    return d

def rmdir(d):
    shutil.rmtree(d, ignore_errors=True)

# ---------------------------------------------------------------------------------------------
# builds (always from /repo's current working tree; cargo fingerprints pick up edits)
class BuildError(Exception):
    pass

def cargo_env():
    e = dict(os.environ)
    e['CARGO_NET_OFFLINE'] = 'true'
    e.pop('RUSTFLAGS', None)
    return e

def build(harness, profile='debug', flavor=None, features=None):
    """build harness/<harness>; returns path of the binary. flavor: None | 'asan' | 'tsan'"""
    src = os.path.join(VERIF, 'harness', harness)
    tdir = os.path.join(BUILD, harness + ('-' + flavor if flavor else ''))
    cmd = ['cargo']
    env = cargo_env()
    target = None
    if flavor in ('asan', 'tsan'):
        cmd.append('+nightly')
        target = 'x86_64-unknown-linux-gnu'
        if flavor == 'asan':
            env['RUSTFLAGS'] = '-Zsanitizer=address -Cforce-frame-pointers=yes'
        else:
            env['RUSTFLAGS'] = '-Zsanitizer=thread'
    cmd += ['build', '--offline', '--quiet']
    if profile == 'release':
        cmd.append('--release')
    if target:
        cmd += ['--target', target]
        if flavor == 'tsan':
            cmd += ['-Zbuild-std']
    if features:
        cmd += ['--features', features]
    env['CARGO_TARGET_DIR'] = tdir
    t0 = time.time()
    r = subprocess.run(cmd, cwd=src, env=env, stdout=subprocess.PIPE, stderr=subprocess.STDOUT)
    if r.returncode != 0:
        sys.stderr.write(r.stdout.decode('utf-8', 'replace')[-6000:])
        raise BuildError(f'build of {harness} ({profile},{flavor}) failed')
    log(f'[build] {harness} {profile} {flavor or ""} {time.time()-t0:.1f}s')
    p = os.path.join(tdir, target or '', profile, harness)
    if not os.path.exists(p):
        raise BuildError(f'binary {p} missing')
    return p

# ---------------------------------------------------------------------------------------------
# verdict plumbing
class Violation:
    def __init__(self, prop, cls, detail, triggers=(), replay=None):
        self.prop, self.cls, self.detail = prop, cls, detail
        self.triggers = sorted(set(triggers))
        self.replay = replay  # dict to be written as replay file
    def to_json(self):
        return {'prop': self.prop, 'cls': self.cls, 'detail': self.detail, 'triggers': self.triggers}
    @staticmethod
    def from_json(d, replay=None):
        return Violation(d['prop'], d['cls'], d.get('detail', ''), d.get('triggers', ()), replay)

def load_known_findings():
    p = os.path.join(VERIF, 'known_findings.json')
    if not os.path.exists(p):
        return []
    with open(p) as f:
        return json.load(f).get('findings', [])

def kf_match(kfs, v):
    """a violation is a known finding iff property and class match and every trigger the finding names
    is among the triggers the *generator* attached to the input"""
    for k in kfs:
        if k.get('status', 'open') != 'open':
            continue
        if k['property'] != v.prop:
            continue
        if k['class'] != v.cls and not (k['class'].endswith('*') and v.cls.startswith(k['class'][:-1])):
            continue
        if all(t in v.triggers for t in k.get('trigger', [])):
            return k
    return None

class Report:
    """collects everything one check run observed and turns it into exit code + evidence"""
    def __init__(self, prop, tier, seed, level):
        self.prop, self.tier, self.seed, self.level = prop, tier, seed, level
        self.t0 = time.time()
        self.evaluations = 0
        self.nontrivial = set()
        self.samples = []
        self.violations = []       # Violation (unknown)
        self.known = {}            # finding id -> count
        self.inconclusive = []
        self.cover = {}
        self.extra = {}
        self.assumptions = []
        self.rule = ''
        self.kfs = load_known_findings()
        self.required = {}         # coverage counters that must be > 0
        self.replay_dir = os.path.join(VERIF, 'replays', prop)
        self.distinct_measured = None   # set when the harness itself counts distinct non-trivial cases (e.g. distinct states)

    def count(self, key, n=1):
        self.cover[key] = self.cover.get(key, 0) + n

    def merge_cover(self, d):
        for k, v in (d or {}).items():
            self.count(k, v)

    def add_case(self, fingerprint, nontrivial=True, sample=None):
        self.evaluations += 1
        if nontrivial:
            self.nontrivial.add(fingerprint)
        if sample is not None and len(self.samples) < 5:
            self.samples.append(sample)

    def add_violation(self, v):
        if v.prop != self.prop:
            self.count(f'other_property_observations:{v.prop}:{v.cls}')
            return
        k = kf_match(self.kfs, v)
        if k:
            kid = k['id']
            self.known[kid] = self.known.get(kid, 0) + 1
            return
        self.violations.append(v)

    def add_inconclusive(self, why):
        self.inconclusive.append(str(why)[:300])

    def finish(self, exhaustive=False):
        os.makedirs(os.path.join(VERIF, 'evidence'), exist_ok=True)
        vlines = []
        seen_cls = {}
        for v in self.violations:
            n = seen_cls.get(v.cls, 0)
            seen_cls[v.cls] = n + 1
            if n >= 3:
                continue  # at most three replay files per class
            os.makedirs(self.replay_dir, exist_ok=True)
            h = hashlib.sha1(json.dumps([v.cls, v.detail, v.replay], sort_keys=True, default=str).encode()).hexdigest()[:10]
            path = os.path.join(self.replay_dir, f'{self.prop}-{v.cls.split("(")[0]}-{h}.json')
            with open(path, 'w') as f:
                json.dump({'property': self.prop, 'tier': self.tier, 'seed': self.seed, 'class': v.cls,
                           'detail': v.detail, 'triggers': v.triggers, 'replay': v.replay}, f, indent=1, default=str)
            vlines.append(f'VIOLATION property={self.prop} replay={path}')
            log(f'  class={v.cls} detail={str(v.detail)[:400]}')
        for kid, n in sorted(self.known.items()):
            k = next(x for x in self.kfs if x['id'] == kid)
            print(f'KNOWN-FINDING: property={self.prop} {k["what"]} [{kid}; seen {n}x this run]')
        missing = [k for k, need in self.required.items() if self.cover.get(k, 0) < need]
        wall = time.time() - self.t0
        cov = {
            'evaluations': self.evaluations,
            'distinct_nontrivial': self.distinct_measured if self.distinct_measured is not None else len(self.nontrivial),
            'rule': self.rule,
            'samples': self.samples[:5] if self.samples else ['(none)'],
            'exhaustive': bool(exhaustive),
            'observed': dict(sorted(self.cover.items())),
            'inconclusive_cases': len(self.inconclusive),
            'inconclusive_samples': self.inconclusive[:5],
            'known_findings_seen': self.known,
            'violation_classes': seen_cls,
            'required_coverage_missing': missing,
        }
        cov.update(self.extra)
        ev = {'property_id': self.prop, 'tier': self.tier, 'seed': self.seed, 'level': self.level,
              'coverage': cov, 'assumptions': self.assumptions, 'wall_s': round(wall, 2),
              'violations': len(self.violations)}
        with open(os.path.join(VERIF, 'evidence', f'{self.prop}.json'), 'w') as f:
            json.dump(ev, f, indent=1, default=str)
        for l in vlines:
            print(l)
        print(f'[{self.prop}] tier={self.tier} seed={self.seed} evaluations={self.evaluations} '
              f'distinct_nontrivial={self.distinct_measured if self.distinct_measured is not None else len(self.nontrivial)} violations={len(self.violations)} '
              f'known={sum(self.known.values())} inconclusive={len(self.inconclusive)} wall={wall:.1f}s')
        sys.stdout.flush()
        if self.violations:
            return 1
        if missing or self.evaluations == 0 or (self.distinct_measured if self.distinct_measured is not None else len(self.nontrivial)) < 2:
            print(f'INCONCLUSIVE property={self.prop} missing_coverage={missing} evaluations={self.evaluations}')
            return 2
        if self.inconclusive and len(self.inconclusive) > max(3, self.evaluations // 10):
            print(f'INCONCLUSIVE property={self.prop} too many inconclusive cases: {len(self.inconclusive)}')
            return 2
        return 0

# ---------------------------------------------------------------------------------------------
def _init_worker(root):
    set_scratch_root(root)

def pmap(fn, tasks, jobs=None, budget_s=None):
    """run fn(task) over tasks in worker processes; yields (task, result|Exception). After budget_s no
    new task is started (queued ones are cancelled); the ones already running are waited for and yielded."""
    jobs = jobs or NCPU
    root = scratch_root()
    t0 = time.time()
    with ProcessPoolExecutor(max_workers=jobs, initializer=_init_worker, initargs=(root,)) as ex:
        futs = {ex.submit(fn, t): t for t in tasks}
        try:
            over = False
            for f in as_completed(futs):
                if f.cancelled():
                    continue
                t = futs[f]
                try:
                    yield t, f.result()
                except Exception as e:  # worker-side harness error
                    yield t, e
                if budget_s and not over and time.time() - t0 > budget_s:
                    # budget used up: nothing new is started; tasks already running are waited for and their results still count
                    over = True
                    for g in futs:
                        g.cancel()
        finally:
            for g in futs:
                g.cancel()

def seed_of():
    try:
        return int(os.environ.get('VERIF_SEED', '').strip() or 0)
    except ValueError:
        return 0

def rng_for(seed, *salt):
    h = hashlib.sha256(repr((seed,) + salt).encode()).digest()
    return random.Random(int.from_bytes(h[:8], 'little'))

def fingerprint(obj):
    return hashlib.sha1(json.dumps(obj, sort_keys=True, default=str).encode()).hexdigest()[:16]
