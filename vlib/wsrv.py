"""Client for the wsrv op server (one child process = one engine process lifetime)."""
import json, os, select, subprocess, time

class Dead(Exception):
    """worker process died or watchdog fired; .code = exit status or None (timeout)"""
    def __init__(self, code, why, stderr=''):
        super().__init__(f'{why} code={code}')
        self.code, self.why, self.stderr = code, why, stderr

class Wsrv:
    def __init__(self, binary, timeout=120.0, env=None, cwd=None, prefix=None, rlimits=None, stderr_path=None, args=None):
        e = dict(os.environ)
        e['WALRUS_QUIET'] = '1'
        e.pop('WALRUS_DATA_DIR', None); e.pop('WALRUS_INSTANCE_KEY', None)
        if env: e.update(env)
        self.timeout = timeout
        self.stderr_path = stderr_path
        self._errf = open(stderr_path, 'wb') if stderr_path else subprocess.DEVNULL
        argv = (prefix or []) + [binary] + list(args or [])
        def pre():
            if rlimits:
                import resource
                for k, v in rlimits.items():
                    # CPU time: soft limit first (SIGXCPU), hard limit a little later (SIGKILL)
                    resource.setrlimit(getattr(resource, k), (v, v + 5) if k == 'RLIMIT_CPU' else (v, v))
        self.p = subprocess.Popen(argv, stdin=subprocess.PIPE, stdout=subprocess.PIPE, stderr=self._errf,
                                  env=e, cwd=cwd, preexec_fn=pre if rlimits else None, bufsize=0)
        self.buf = b''
        self.nops = 0
        self.inflight = None

    def _readline(self, timeout):
        end = time.monotonic() + timeout
        while True:
            i = self.buf.find(b'\n')
            if i >= 0:
                line, self.buf = self.buf[:i], self.buf[i + 1:]
                if line.startswith(b'@'):
                    return line[1:]
                continue  # stray engine output
            left = end - time.monotonic()
            if left <= 0:
                raise Dead(None, 'timeout')
            r, _, _ = select.select([self.p.stdout], [], [], min(left, 1.0))
            if r:
                chunk = os.read(self.p.stdout.fileno(), 1 << 20)
                if not chunk:
                    code = self.p.wait()
                    raise Dead(code, 'exit')
                self.buf += chunk

    def call(self, op, timeout=None, **kw):
        kw['op'] = op
        return self.send(kw, timeout)

    def send(self, req, timeout=None):
        self.inflight = req
        try:
            self.p.stdin.write((json.dumps(req) + '\n').encode())
            self.p.stdin.flush()
        except (BrokenPipeError, OSError):
            code = self.p.wait()
            raise Dead(code, 'exit')
        line = self._readline(timeout or self.timeout)
        self.inflight = None
        self.nops += 1
        return json.loads(line)

    def close(self, kill=False):
        try:
            if self.p.poll() is None:
                if not kill:
                    try:
                        self.send({'op': 'exit'}, 5)
                    except Exception:
                        pass
                if self.p.poll() is None:
                    self.p.kill()
            self.p.wait(timeout=10)
        except Exception:
            pass
        for f in (self.p.stdin, self.p.stdout):
            try: f.close()
            except Exception: pass
        if self.stderr_path:
            try: self._errf.close()
            except Exception: pass

    def stderr_text(self):
        if self.stderr_path and os.path.exists(self.stderr_path):
            with open(self.stderr_path, 'rb') as f:
                return f.read().decode('utf-8', 'replace')
        return ''
