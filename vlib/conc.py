"""Concurrent histories over wsrv's `run_concurrent` (token scheduler at the engine's sched_point hooks) and the
exactly-once / order / contiguity oracle of C05.

A *program* = prefill ops (single-threaded), per-thread op lists (producers: append / batch; consumers: read_next /
batch_read, all consuming), then a single-threaded final drain. Every payload carries a unique tag, so a returned
entry names the append it came from. Stamps (`call`, `ret`) are taken at the API boundary by the harness from one
atomic counter.
"""
from .payload import summary, decode_head

BLOCK = 10 * 1024 * 1024
HDR = 256

class Prog:
    """tags: tag -> dict(thread, seq, batch, idx, len) ; thread -1 = prefill"""
    def __init__(self, topic):
        self.topic = topic
        self.prefill = []      # wsrv requests
        self.threads = []      # list of list of wsrv requests
        self.tags = {}
        self.batches = {}      # batch id -> [tags]
        self.features = set()
        self._tag = 0
        self._batch = 0
        self._seq = {}

    def base_tag(self, base):
        self._tag = base

    def _new(self, thread, ln, batch=None, idx=0):
        self._tag += 1
        s = self._seq.get(thread, 0)
        self._seq[thread] = s + 1
        self.tags[self._tag] = {'thread': thread, 'seq': s, 'batch': batch, 'idx': idx, 'len': ln}
        if batch is not None:
            self.batches.setdefault(batch, []).append(self._tag)
        return self._tag

    def append(self, thread, ln):
        tag = self._new(thread, ln)
        return {'op': 'append', 'h': 1, 't': self.topic, 'tag': tag, 'len': ln}

    def batch(self, thread, lens):
        self._batch += 1
        b = self._batch
        ents = [[self._new(thread, ln, b, i), ln] for i, ln in enumerate(lens)]
        return {'op': 'batch', 'h': 1, 't': self.topic, 'entries': ents}

    def rn(self):
        return {'op': 'read_next', 'h': 1, 't': self.topic, 'cp': True}

    def br(self, mx):
        return {'op': 'batch_read', 'h': 1, 't': self.topic, 'max': mx, 'cp': True}


def gen_prog(rng, topic, shape):
    """shape: dict(consumers=[('rn'|'br'|'mix')...], producers=n, ops=(lo,hi), rotation=bool, prefill=(lo,hi))"""
    P = Prog(topic)
    small = [16, 17, 64, 100, 127, 128, 129, 200, 300, 1000]
    # prefill
    room = None
    if shape.get('rotation'):
        # leave room for `k` more small entries in the first block, so that the rotation happens inside the window
        k = rng.choice([0, 1, 1, 2, 3])
        slack = sum(HDR + rng.choice([100, 200, 300]) for _ in range(k)) + rng.choice([0, 1, 100, 255])
        ln = BLOCK - HDR - slack
        P.prefill.append(P.append(-1, ln))
        P.features.add('rotation-in-window')
        if rng.random() < 0.5:
            P.prefill.append(P.rn())       # cursor already behind the big entry: reads start near the block end
            P.features.add('cursor-at-block-end')
    for _ in range(rng.randint(*shape.get('prefill', (0, 3)))):
        if rng.random() < 0.25:
            P.prefill.append(P.batch(-1, [rng.choice(small) for _ in range(rng.randint(2, 3))]))
        else:
            P.prefill.append(P.append(-1, rng.choice(small)))
    lo, hi = shape.get('ops', (1, 3))
    tid = 0
    for _ in range(shape.get('producers', 1)):
        ops = []
        for _ in range(rng.randint(lo, hi)):
            if rng.random() < shape.get('batch_p', 0.35):
                ops.append(P.batch(tid, [rng.choice(small) for _ in range(rng.randint(2, 4))]))
                P.features.add('batch-append')
            else:
                ops.append(P.append(tid, rng.choice(small)))
        P.threads.append(ops)
        tid += 1
    for kind in shape.get('consumers', ['rn']):
        ops = []
        for _ in range(rng.randint(lo, hi) + shape.get('extra_reads', 1)):
            k = kind if kind != 'mix' else rng.choice(['rn', 'br'])
            if k == 'rn':
                ops.append(P.rn())
            else:
                ops.append(P.br(rng.choice([0, 1, 100, 300, 700, 4096, 1 << 20, 1 << 40])))
        P.threads.append(ops)
        tid += 1
    P.consumer_kinds = list(shape.get('consumers', ['rn']))
    n_rn = sum(1 for t in P.threads for o in t if o['op'] == 'read_next')
    n_cons = sum(1 for t in P.threads if any(o['op'] in ('read_next', 'batch_read') for o in t))
    if n_cons >= 2:
        P.features.add('multi-consumer')
        if n_rn:
            P.features.add('multi-consumer-read_next')
    else:
        P.features.add('single-consumer')
    return P


def check_history(P, pre_results, hist, drain_results):
    """returns (findings, stats). pre_results: replies of the prefill ops; hist: per thread [{'call','ret','res'}];
    drain_results: list of replies of the final single-threaded reads (in order)."""
    F = []
    st = {}
    acked, failed = {}, {}     # tag -> ret stamp of the append / True
    deliveries = {}            # tag -> list of (reader, call, ret)
    reads = []                 # (reader, call, ret, [tags], api)
    stamp = [0]
    def nxt():
        stamp[0] += 1
        return stamp[0]
    def note_append(req, res, call, ret):
        tags = [req['tag']] if req['op'] == 'append' else [e[0] for e in req['entries']]
        if res.get('ok'):
            for t in tags:
                acked[t] = (call, ret)
        else:
            for t in tags:
                failed[t] = res
            st['appends_failed'] = st.get('appends_failed', 0) + 1
            if 'panic' in res:
                F.append({'cls': 'panic(append)', 'detail': res})
    def note_read(reader, req, res, call, ret):
        if not res.get('ok'):
            F.append({'cls': 'panic(read)' if 'panic' in res else 'error(read)', 'detail': {'req': req, 'res': res}})
            return
        tags = []
        for g in res['e']:
            g = tuple(g)
            d = decode_head(g)
            if d is None or d[0] not in P.tags or summary(d[0], P.tags[d[0]]['len']) != g:
                F.append({'cls': 'corrupt-or-invented-entry', 'detail': {'got': g}})
                continue
            tags.append(d[0])
            deliveries.setdefault(d[0], []).append((reader, call, ret))
        reads.append((reader, call, ret, tags, req['op']))
    # prefill is sequential, before everything (negative stamps keep the order)
    base = -10_000_000
    for i, (req, res) in enumerate(pre_results):
        c, r = base + 2 * i, base + 2 * i + 1
        if req['op'] in ('append', 'batch'):
            note_append(req, res, c, r)
        else:
            note_read('prefill', req, res, c, r)
    for tid, (ops, hs) in enumerate(zip(P.threads, hist)):
        for req, h in zip(ops, hs):
            if req['op'] in ('append', 'batch'):
                note_append(req, h['res'], h['call'], h['ret'])
            else:
                note_read(tid, req, h['res'], h['call'], h['ret'])
    big = 10_000_000
    for i, (req, res) in enumerate(drain_results):
        note_read('drain', req, res, big + 2 * i, big + 2 * i + 1)
    # (1) exactly once
    for t in acked:
        n = len(deliveries.get(t, []))
        if n == 0:
            F.append({'cls': 'lost', 'detail': {'tag': t, **P.tags[t]}})
        elif n > 1:
            apis = sorted({str(r) for r, _, _ in deliveries[t]})
            F.append({'cls': 'duplicate', 'detail': {'tag': t, 'times': n, 'readers': apis, **P.tags[t]}})
    for t in deliveries:
        if t in failed:
            F.append({'cls': 'failed-append-visible', 'detail': {'tag': t, 'reply': failed[t]}})
        elif t not in acked:
            F.append({'cls': 'unacknowledged-entry-delivered', 'detail': {'tag': t}})
    # (2) per-producer order
    first = {t: min(d, key=lambda x: x[2]) for t, d in deliveries.items()}
    by_thread = {}
    for t in acked:
        by_thread.setdefault(P.tags[t]['thread'], []).append(t)
    for th, ts in by_thread.items():
        ts.sort(key=lambda t: P.tags[t]['seq'])
        for a, b in zip(ts, ts[1:]):
            if a in first and b in first:
                # b delivered by a read that returned before the read delivering a was even called
                if first[b][2] < first[a][1]:
                    F.append({'cls': 'producer-order', 'detail': {'earlier': {'tag': a, **P.tags[a]}, 'later': {'tag': b, **P.tags[b]},
                                                                  'later_returned_at': first[b][2], 'earlier_called_at': first[a][1]}})
    for reader, c, r, tags, api in reads:
        seen = {}
        for t in tags:
            th = P.tags[t]['thread']
            if th in seen and P.tags[t]['seq'] < seen[th]:
                F.append({'cls': 'producer-order', 'detail': {'within': api, 'tags': tags}})
                break
            seen[th] = P.tags[t]['seq']
    # (3) batch contiguity inside one read result and along a sole consumer's stream
    def contiguous(seq, where):
        pos = {t: i for i, t in enumerate(seq)}
        for b, bt in P.batches.items():
            got = [pos[t] for t in bt if t in pos]
            if len(got) >= 2:
                if got != list(range(got[0], got[0] + len(got))):
                    F.append({'cls': 'batch-not-contiguous', 'detail': {'batch': bt, 'positions': got, 'where': where}})
                    return
    for reader, c, r, tags, api in reads:
        contiguous(tags, api)
    readers = {r for r, *_ in reads if r not in ('prefill', 'drain') and True}
    conc_readers = {r for r, c, rr, tags, api in reads if r not in ('prefill', 'drain')}
    if len(conc_readers) <= 1:
        stream = []
        for reader, c, r, tags, api in sorted(reads, key=lambda x: x[1]):
            stream += tags
        contiguous(stream, 'sole-consumer-stream')
        # a sole consumer also sees one producer's entries in order and acknowledged prefill entries first
        st['sole_consumer_streams'] = 1
    # (4) an in-flight / failed batch is never partially observed: covered by failed-append-visible; and a delivered prefix of a
    # batch must be followed by the rest before any empty poll that was called after the prefix was returned
    for reader, c, r, tags, api in reads:
        if tags:
            continue
        for b, bt in P.batches.items():
            d = [t for t in bt if t in first and first[t][2] < c]          # delivered before this empty poll was called
            rest = [t for t in bt if t in acked and (t not in first or first[t][1] > r)]   # delivered only after it returned (or never)
            if d and rest and all(first[t][0] != 'prefill' for t in d):
                F.append({'cls': 'partial-batch-visible', 'detail': {'batch': bt, 'delivered_before': d, 'still_undelivered': rest, 'empty_poll': [c, r]}})
    st['acked'] = len(acked)
    st['acked_tags'] = set(acked)
    st['delivered'] = sum(1 for t in acked if deliveries.get(t))
    st['delivered_concurrently'] = sum(1 for t, d in deliveries.items() if any(r not in ('prefill', 'drain') for r, _, _ in d))
    st['reads'] = len(reads)
    st['empty_reads'] = sum(1 for x in reads if not x[3])
    return F, st
