"""Regenerable payloads shared with harness/wsrv/src/payload.rs."""
import zlib
from functools import lru_cache

M64 = (1 << 64) - 1

@lru_cache(maxsize=4096)
def _base(m):
    return bytes(((m + 3 * j) & 0xFF) for j in range(251))

def payload(tag, length):
    hdr = (tag & M64).to_bytes(8, 'little') + (length & M64).to_bytes(8, 'little')
    if length <= 16:
        return hdr[:length]
    m = (((tag * 2654435761) & M64) >> 7) & 0xFF
    b = _base(m)
    body_len = length - 16
    body = (b * (body_len // 251 + 1))[:body_len]
    return hdr + body

@lru_cache(maxsize=200000)
def summary(tag, length):
    """[len, crc32, hex(first 24 bytes)] as the harness reports it"""
    p = payload(tag, length)
    return (length, zlib.crc32(p) & 0xFFFFFFFF, p[:24].hex())

def suffix_summary(tag, length, trim):
    p = payload(tag, length)[trim:]
    return (len(p), zlib.crc32(p) & 0xFFFFFFFF, p[:24].hex())

def decode_head(summ):
    """(tag, len) claimed by a returned entry's own header, or None if shorter than 16 bytes"""
    n, _crc, head = summ
    if n < 16:
        return None
    raw = bytes.fromhex(head)
    return int.from_bytes(raw[:8], 'little'), int.from_bytes(raw[8:16], 'little')
