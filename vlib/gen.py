"""Program generator for the sequential engine checks (C01, C02, C03, C06, C15, C16, C17 ...).

Sizes and budgets are aimed at the engine's constants: 128 (double-peek threshold), 256 (header),
2000 (entry cap), 10 MiB (block), multi-unit blocks.
"""
from .seq import HDR, BLOCK

SMALL = [0, 1, 7, 8, 15, 16, 17, 64, 100, 127, 128, 129, 200, 255, 256, 257, 300, 1000, 4096]
BUDGETS = [0, 1, 100, 255, 256, 257, 1000, 4096, 65536, 1 << 20, BLOCK - 1, BLOCK, 2 * BLOCK,
           (1 << 63) - 1, (1 << 64) - 1]

class Layout:
    """prediction of the writer's block position (only used to aim sizes; never an oracle)"""
    def __init__(self):
        self.off, self.limit, self.rotations = 0, BLOCK, 0
    def _units(self, need):
        return ((need + BLOCK - 1) // BLOCK) * BLOCK
    def append(self, ln):
        need = HDR + ln
        if self.off + need > self.limit:
            self.off, self.limit = 0, self._units(need)
            self.rotations += 1
        self.off += need
    def batch(self, lens):
        for ln in lens:
            need = HDR + ln
            if self.limit - self.off < need:
                self.off, self.limit = 0, self._units(max(need, BLOCK))
                self.rotations += 1
            self.off += need
    def reopened(self):
        self.off, self.limit = 0, BLOCK
    @property
    def remaining(self):
        return self.limit - self.off

class Gen:
    def __init__(self, rng, profile):
        self.r = rng
        self.p = dict(profile)
        self.tag = 0
        self.ops = []
        self.topics = [['a', 'b', 'topic-c', 'd.4'][i] for i in range(self.p.get('topics', 2))]
        self.lay = {t: Layout() for t in self.topics}
        self.pending = {t: [] for t in self.topics}   # lens of appended, not yet consumed (prediction)
        self.bytes = 0
        self.min_len = self.p.get('min_len', 0)
        self.features = set()
        fams = self.p.get('fault_fams')
        self.fault_fam = None
        if fams:
            self.fault_fam = self.r.choice(fams)
            self.features.add('faultfam:' + self.fault_fam)

    def newtag(self):
        self.tag += 1
        return self.tag

    def pick_len(self, t):
        r, p = self.r, self.p
        kind = r.choices(['small', 'med', 'large', 'exact', 'huge'], weights=p.get('size_w', [5, 4, 1, 1, 0]))[0]
        if kind == 'small':
            ln = r.choice(SMALL)
        elif kind == 'med':
            ln = r.randint(200_000, 3_000_000)
        elif kind == 'large':
            ln = r.randint(3_000_000, BLOCK - HDR)
        elif kind == 'exact':
            rem = self.lay[t].remaining
            d = r.choice([0, 1, 2, 255, 256, 257, 300])
            ln = rem - HDR - d
            if ln < 0 or ln > 6_000_000:
                ln = r.choice(SMALL)
            else:
                self.features.add('exact-block-end')
        else:
            ln = r.randint(BLOCK + 1, int(2.5 * BLOCK))
            self.features.add('multi-unit')
        return max(ln, self.min_len)

    def emit(self, k, **a):
        self.ops.append([k, a])

    def op_append(self, t):
        ln = self.pick_len(t)
        self.emit('append', t=t, tag=self.newtag(), len=ln)
        self.lay[t].append(ln); self.pending[t].append(ln); self.bytes += ln

    def op_batch(self, t):
        r = self.r
        shape = r.choices(['few', 'many-small', 'filler', 'cap'], weights=self.p.get('batch_w', [6, 2, 1, 0.3]))[0]
        if shape == 'few':
            lens = [self.pick_len(t) for _ in range(r.randint(1, 6))]
            if any(l > BLOCK - HDR for l in lens):
                self.features.add('multi-unit-in-batch')
        elif shape == 'many-small':
            lens = [max(r.choice(SMALL), self.min_len) for _ in range(r.randint(10, 300))]
        elif shape == 'filler':
            n = r.randint(500, 2000)
            ln = max(r.choice([100, 1000, 5000]), self.min_len)
            lens = [ln] * n
            self.features.add('filler-batch')
        else:
            lens = [max(r.choice([0, 8, 16, 100]), self.min_len)] * 2000
            self.features.add('cap-batch')
        if sum(lens) + self.bytes > self.p.get('max_bytes', 120_000_000):
            lens = [max(r.choice(SMALL), self.min_len) for _ in range(r.randint(1, 5))]
        ents = [[self.newtag(), ln] for ln in lens]
        self.emit('batch', t=t, entries=ents)
        self.lay[t].batch(lens); self.pending[t].extend(lens); self.bytes += sum(lens)

    def op_reject(self, t):
        """operations the API must reject (C04): the model expects an error and no visible entry"""
        r = self.r
        k = r.choice(self.p.get('reject_kinds') or (['over-cap', 'over-cap', 'long-topic-batch', 'long-topic-append'] + (['over-10g'] if self.p.get('allow_10g') else [])))
        self.features.add('reject:' + k)
        if k == 'empty-batch':
            self.emit('batch', t=t, entries=[], expect='any')
        elif k == 'over-cap':
            self.emit('batch', t=t, entries=[[self.newtag(), max(r.choice([0, 16, 100]), self.min_len)]], rep=r.choice([2001, 2001, 2500]), expect='err')
        elif k == 'over-10g':
            self.emit('batch', t=t, entries=[[self.newtag(), 1 << 30]], rep=11, expect='err')
        elif k == 'long-topic-batch':
            self.emit('batch', t='L' * r.choice([230, 300, 600]), entries=[[self.newtag(), 100], [self.newtag(), 5000]], expect='err')
        else:
            self.emit('append', t='L' * r.choice([230, 300, 600]), tag=self.newtag(), len=64, expect='err')

    def op_fault(self, t):
        """an append / batch with an injected I/O failure armed (C04); either outcome is admissible, the reply decides"""
        r = self.r
        single = r.random() < 0.35
        if single:
            kinds = ['block_write', 'create', 'set_len', 'create_fsync', 'flush']
            ln = self.pick_len(t)
            inner = ['append', dict(t=t, tag=self.newtag(), len=ln, expect='any')]
            lens = [ln]
        else:
            kinds = ['cqe-neg', 'cqe-short', 'uring_submit', 'block_write', 'create', 'set_len', 'create_fsync', 'flush']
            shape = r.choice(['few', 'few-big', 'many'])
            if shape == 'few':
                lens = [self.pick_len(t) for _ in range(r.randint(1, 6))]
            elif shape == 'few-big':
                lens = [r.randint(2_000_000, 6_000_000) for _ in range(r.randint(2, 5))]
                self.features.add('fault-batch-multi-block')
            else:
                lens = [max(r.choice(SMALL), self.min_len) for _ in range(r.randint(10, 200))]
            inner = ['batch', dict(t=t, entries=[[self.newtag(), ln] for ln in lens], expect='any')]
        fam = {'completion': ['cqe-neg', 'cqe-short', 'uring_submit', 'block_write'], 'flush': ['flush'],
               'alloc': ['create', 'set_len', 'create_fsync']}.get(self.fault_fam)
        if fam:
            kinds = [k for k in kinds if k in fam] or kinds
        k = r.choice(kinds)
        a = {'kind': k, 'then': inner}
        n = len(lens)
        if k == 'cqe-neg':
            a.update(idx=r.randrange(n), res=r.choice([-5, -28, -9]))
        elif k == 'cqe-short':
            a.update(idx=r.randrange(n), res=r.choice([0, 1, 100, 255]))
        else:
            a.update(nth=r.choice([0, 0, 0, 1, 2, r.randrange(n)]))
        self.features.add('fault:' + k)
        self.emit('fault', **a)
        # layout prediction is unknown after a possibly failed op: keep it simple, assume success
        if inner[0] == 'append':
            self.lay[t].append(lens[0])
        else:
            self.lay[t].batch(lens)
        self.bytes += sum(lens)
        # a caller's natural reaction to a failed call: retry (part of) it. The retried entries have the sizes of the failed
        # ones, so they land exactly on the bytes the failed call left behind
        if r.random() < self.p.get('retry_p', 0.7) and sum(lens) < 30_000_000:
            k = r.choice([1, 1, 1, 2, len(lens)]) if len(lens) > 1 else 1
            k = min(k, len(lens))
            self.features.add('retry-after-fault')
            if k == 1 and r.random() < 0.7:
                self.emit('append', t=t, tag=self.newtag(), len=lens[0])
                self.lay[t].append(lens[0])
            else:
                self.emit('batch', t=t, entries=[[self.newtag(), ln] for ln in lens[:k]])
                self.lay[t].batch(lens[:k])
            self.pending[t].extend(lens[:k]); self.bytes += sum(lens[:k])
            if r.random() < 0.5:
                kind = r.choice(['reopen', 'restart'])
                self.emit(kind)
                for l in self.lay.values():
                    l.reopened()
                self.features.add(kind)

    def pick_budget(self, t):
        r = self.r
        pend = self.pending[t]
        if pend and r.random() < self.p.get('aimed_budget', 0.6):
            k = r.randint(1, min(len(pend), 6))
            pay = sum(pend[:k]); raw = pay + HDR * k
            b = r.choice([pay - 1, pay, pay + 1, raw - 1, raw, raw + 1, pay + pend[min(k, len(pend) - 1)] // 2])
            return max(b, 0)
        return r.choice(BUDGETS)

    def consume_pred(self, t, n):
        del self.pending[t][:n]

    def op_read(self, t):
        """reads are emitted without knowing how many entries a batch read will return; the prediction
        of `pending` is refreshed conservatively (cleared) after batch reads"""
        r, p = self.r, self.p
        kind = r.choices(['rn', 'br', 'rn_peek', 'br_peek', 'pair_rn', 'pair_br', 'offset'],
                         weights=p.get('read_w', [4, 4, 0, 0, 0, 0, 0]))[0]
        if kind == 'rn':
            self.emit('rn', t=t, cp=True); self.consume_pred(t, 1)
        elif kind == 'br':
            self.emit('br', t=t, max=self.pick_budget(t), cp=True); self.pending[t] = []
        elif kind == 'rn_peek':
            self.emit('rn', t=t, cp=False)
        elif kind == 'br_peek':
            self.emit('br', t=t, max=self.pick_budget(t), cp=False)
        elif kind == 'pair_rn':
            self.emit('peekpair', t=t, api='rn'); self.consume_pred(t, 1)
        elif kind == 'pair_br':
            self.emit('peekpair', t=t, api='br', max=self.pick_budget(t)); self.pending[t] = []
        else:
            total = self.lay[t].off + self.lay[t].rotations * BLOCK
            x = r.choice([0, 1, 255, 256, 257, 300, r.randint(0, max(total, 1)), r.randint(0, max(total, 1)),
                          total, total + 1, BLOCK - 1, BLOCK, BLOCK + 1, 1 << 40] + [0] * p.get('offset0_extra', 0))
            self.emit('br', t=t, max=self.pick_budget(t), cp=r.random() < 0.5, start=x)
            self.features.add('offset-read')

    def generate(self):
        r, p = self.r, self.p
        nops = r.randint(*p.get('nops', (40, 120)))
        w_app, w_bat, w_read, w_cnt, w_re, w_rs, w_mark = p.get('op_w', [5, 2, 5, 1, 0, 0, 0])
        w_rej, w_fault = p.get('reject_w', 0), p.get('fault_w', 0)
        # optional prelude: a topic's very first operation hands out a block without writing an entry (rejected / empty batch), so
        # that later blocks of other topics lie physically behind an allocated-but-unwritten block
        for t in self.topics:
            if r.random() < p.get('prelude_alloc_only', 0):
                self.op_reject(t)
                self.features.add('prelude-alloc-only')
        # optional prelude: a topic's first block is sealed holding nothing but a few tiny (< 128 byte) entries, because the next entry
        # does not fit behind them (read paths treat entries below the double-peek threshold specially)
        for t in self.topics:
            if r.random() < p.get('prelude_small_block', 0):
                for _ in range(r.randint(1, 4)):
                    ln = max(r.choice([0, 1, 8, 16, 64, 100, 127]), self.min_len)
                    self.emit('append', t=t, tag=self.newtag(), len=ln)
                    self.lay[t].append(ln); self.pending[t].append(ln); self.bytes += ln
                ln = r.randint(self.lay[t].remaining - HDR + 1, BLOCK - HDR)
                self.emit('append', t=t, tag=self.newtag(), len=ln)
                self.lay[t].append(ln); self.pending[t].append(ln); self.bytes += ln
                self.features.add('prelude-small-block')
        for _ in range(nops):
            t = r.choice(self.topics)
            k = r.choices(['append', 'batch', 'read', 'count', 'reopen', 'restart', 'marker', 'reject', 'fault'],
                          weights=[w_app, w_bat, w_read, w_cnt, w_re, w_rs, w_mark, w_rej, w_fault])[0]
            if k == 'reject':
                self.op_reject(t); continue
            if k == 'fault':
                if self.bytes < p.get('max_bytes', 120_000_000):
                    self.op_fault(t)
                continue
            if k == 'append':
                if self.bytes < p.get('max_bytes', 120_000_000):
                    self.op_append(t)
            elif k == 'batch':
                self.op_batch(t)
            elif k == 'read':
                self.op_read(t)
            elif k == 'count':
                if r.random() < 0.5:
                    self.emit('count', t=t)
                else:
                    self.emit('counts')
            elif k in ('reopen', 'restart'):
                self.emit(k)
                for l in self.lay.values():
                    l.reopened()
                self.features.add(k)
            elif k == 'marker':
                self.emit(r.choice(['mark_clean', 'mark_dirty', 'is_clean', 'is_clean']), t=t)
        if p.get('no_final'):
            return self.ops
        # final: counts, full drain of every topic, empty polls, counts
        self.emit('counts')
        for t in self.topics:
            self.emit('drain', t=t, api=r.choice(p.get('drain_api', ['rn', 'rn', 'br'])), max=r.choice(p.get('drain_max', [1 << 20, 1 << 30, 4096])))
            self.emit('rn', t=t, cp=True)
            self.emit('br', t=t, max=1 << 20, cp=True)
            self.emit('count', t=t)
        self.emit('counts')
        return self.ops

def gen_program(rng, profile, params):
    g = Gen(rng, profile)
    ops = [['open', {'h': 1}]] + g.generate()
    return {'instances': {1: dict(params)}, 'ops': ops, 'features': sorted(g.features),
            'predicted_rotations': sum(l.rotations for l in g.lay.values())}
