"""Crash-point enumeration over the verif I/O-event hook (C07, C08, C09).

A workload (generated program) is run once without a crash to number its I/O events per process lifetime and
thread class; then, once per crash point, a fresh worker runs the same program with `crash_at` (or
`batch_crash` for a subset of the writes of one io_uring batch) armed and dies with _exit(137) *before* the
I/O the event names - the process-crash model: everything already handed to the kernel survives, nothing else.
The acknowledgement log is the lock-step model of vlib/seq.py (an op counts only when its reply arrived); the
request without a reply is the in-flight operation. Recovery runs in fresh processes on (a) a copy of the
directory without the cursor index (full log) and (b) the directory as left.
"""
import os, json, time, collections
from . import common
from .common import fresh_dir, rmdir
from .seq import SeqRunner
from .wsrv import Wsrv, Dead
from .payload import summary

CLASSES = ['main', 'clean', 'bg']

def sparse_copy_file(src, dst):
    with open(src, 'rb') as fi, open(dst, 'wb') as fo:
        size = os.fstat(fi.fileno()).st_size
        fo.truncate(size)
        off = 0
        while off < size:
            try:
                data = os.lseek(fi.fileno(), off, os.SEEK_DATA)
            except OSError:
                break
            hole = os.lseek(fi.fileno(), data, os.SEEK_HOLE)
            pos = data
            while pos < hole:
                n = min(hole - pos, 8 << 20)
                buf = os.pread(fi.fileno(), n, pos)
                if not buf:
                    break
                os.pwrite(fo.fileno(), buf, pos)
                pos += len(buf)
            off = hole

def sparse_copy_tree(src, dst):
    for root, dirs, files in os.walk(src):
        rel = os.path.relpath(root, src)
        os.makedirs(os.path.join(dst, rel), exist_ok=True)
        for f in files:
            sparse_copy_file(os.path.join(root, f), os.path.join(dst, rel, f))

def set_dir(prog, d):
    for p in prog['instances'].values():
        p['dir'] = d

def count_pass(binary, prog, timeout=120.0):
    """run the program without a crash; returns per-process event counts, the kinds of the main-class events in order,
    the sizes of the io_uring batches, and main-event ranges per program op"""
    d = fresh_dir('cnt')
    set_dir(prog, d)
    procs = []
    cur = {'ops': []}
    def on_spawn(sr):
        sr.w.call('trace_on', on=True)
        cur['ops'] = []
    def on_step(sr, opi, op):
        if sr.w is not None:
            ev = sr.w.call('events')
            cur['ops'].append((opi, op[0], ev['main']))
    def on_close(sr):
        ev = sr.w.call('events')
        tr = sr.w.call('take_trace').get('trace', [])
        kinds = {c: [e['kind'] for e in tr if e['class'] == c and e['n'] > 0] for c in CLASSES}
        procs.append({'main': ev['main'], 'clean': ev['clean'], 'bg': ev['bg'], 'kinds': kinds,
                      'batches': [e['len'] for e in tr if e['kind'] == 'uring_submit'], 'ops': list(cur['ops'])})
    sr = SeqRunner(binary, timeout=timeout, stop_on=('stream', 'open', 'dead'))
    sr.on_spawn, sr.on_close, sr.on_step = on_spawn, on_close, on_step
    try:
        sr.run(prog)
    finally:
        rmdir(d)
    return {'procs': procs, 'findings': sr.findings, 'stats': {k: v for k, v in sr.stats.items() if k != 'raw'}}

def recover(binary, d, params, topics, api, timeout=90.0):
    """fresh process: open the directory, drain every topic; returns {'open': reply} or {'topics': {t: [summaries]}, 'errors': [...]}"""
    w = Wsrv(binary, timeout=timeout)
    out = {'topics': {}, 'errors': []}
    try:
        req = {'op': 'open', 'h': 1, 'dir': d, 'key': params.get('key'), 'mode': params.get('mode', 'strict'),
               'sched': params.get('sched', 'none'), 'backend': params.get('backend', 'fd'), 'via': 'builder'}
        r = w.send(req)
        if not r.get('ok'):
            out['open'] = r
            return out
        for t in topics:
            ents = []
            while len(ents) < 200000:
                if api == 'rn':
                    r = w.send({'op': 'read_next', 'h': 1, 't': t, 'cp': True})
                else:
                    r = w.send({'op': 'batch_read', 'h': 1, 't': t, 'max': 1 << 30, 'cp': True})
                if not r.get('ok'):
                    out['errors'].append({'topic': t, 'reply': r, 'after': len(ents)})
                    break
                if not r['e']:
                    break
                ents += [tuple(e) for e in r['e']]
            out['topics'][t] = ents
        return out
    except Dead as dd:
        out['died'] = {'code': dd.code, 'why': dd.why, 'req': w.inflight}
        return out
    finally:
        w.close()

def is_subseq(xs, ys):
    it = iter(ys)
    return all(any(x == y for y in it) for x in xs)

def inflight_entries(req):
    if not req:
        return None, []
    if req.get('op') == 'append':
        return req.get('t'), [summary(req['tag'], req['len'])]
    if req.get('op') == 'batch':
        out = []
        for e in req.get('entries', []):
            for _ in range(e[2] if len(e) > 2 else 1):
                out.append(summary(e[0], e[1]))
        return req.get('t'), out
    return None, []

def model_of(I):
    """plain snapshot of an Instance's model: topic -> {log: [summaries], consumed, resync}"""
    return {t: {'log': [summary(*e) for e in T.log], 'consumed': T.consumed, 'resync': bool(T.resync)} for t, T in I.topics.items()}

def used_br_of(ops):
    used = set()
    for op in ops:
        a = op[1] if len(op) > 1 else {}
        if (op[0] == 'br' and a.get('cp', True) and a.get('start') is None) or (op[0] == 'drain' and a.get('api') == 'br') or \
           (op[0] == 'peekpair' and a.get('api') == 'br'):
            used.add(a.get('t'))
    return used

def judge(M, params, req, topics, full, asleft, used_br):
    """compare what fresh processes recovered (full-log copy and directory as left) with the acknowledgement model M and the in-flight request;
    returns (findings, compared entries)"""
    findings = []
    it, ients = inflight_entries(req)
    n_cmp = 0
    for name, rec in (('full-log', full), ('as-left', asleft)):
        if 'open' in rec:
            r = rec['open']
            findings.append({'prop': 'C07', 'cls': 'open-failed(%s)' % ('panic' if 'panic' in r else 'err'),
                             'detail': {'dir': name, 'reply': r}})
        if 'died' in rec:
            findings.append({'prop': 'C07', 'cls': 'recovery-died', 'detail': {'dir': name, **rec['died']}})
        for e in rec.get('errors', []):
            findings.append({'prop': 'C07', 'cls': 'read-failed-after-recovery(%s)' % ('panic' if 'panic' in e['reply'] else 'err'),
                             'detail': {'dir': name, **e}})
    n_cmp = 0
    if 'open' not in full and 'died' not in full:
        for t in topics:
            T = M.get(t)
            exp = list(T['log']) if T else []
            got = full['topics'].get(t, [])
            extra_ok = ients if t == it else []
            n_cmp += len(got)
            if got[:len(exp)] != exp:
                k = next((i for i in range(min(len(got), len(exp))) if got[i] != exp[i]), min(len(got), len(exp)))
                if k >= len(got) or got[k] in exp[k + 1:]:
                    cls = 'acked-missing'
                elif got[k] in exp[:k]:
                    cls = 'acked-duplicated'
                else:
                    cls = 'acked-corrupt-or-foreign'
                findings.append({'prop': 'C07', 'cls': cls, 'detail': {'topic': t, 'acked': len(exp), 'recovered': len(got), 'first_diff': k,
                                                                       'expected': exp[k] if k < len(exp) else None,
                                                                       'got': got[k] if k < len(got) else None}})
                continue
            extra = got[len(exp):]
            if not is_subseq(extra, extra_ok):
                findings.append({'prop': 'C07', 'cls': 'foreign-entry', 'detail': {'topic': t, 'extra': extra[:4], 'inflight_n': len(extra_ok)}})
            elif req.get('op') == 'batch' and t == it and len(ients) >= 2 and 0 < len(extra) < len(ients):
                shape = 'prefix' if extra == ients[:len(extra)] else 'non-prefix'
                findings.append({'prop': 'C08', 'cls': 'partial-batch(in-flight)' if shape == 'prefix' else 'partial-batch(in-flight,non-prefix)', 'detail': {'topic': t, 'batch_entries': len(ients), 'recovered': len(extra), 'shape': shape}})
    # ---- (b) as left: consumer position
    if 'open' not in asleft and 'died' not in asleft:
        for t in topics:
            T = M.get(t)
            log = list(T['log']) if T else []
            got = asleft['topics'].get(t, [])
            n_cmp += len(got)
            c = T['consumed'] if T else 0
            hi = c
            if req.get('t') == t and req.get('cp', True) and req.get('start') is None:
                if req.get('op') == 'read_next':
                    hi = min(c + 1, len(log))
                elif req.get('op') == 'batch_read':
                    hi = len(log)
            extra_ok = ients if t == it else []
            # find p with got == log[p:] + extra
            ps = [p for p in range(0, len(log) + 1) if got[:len(log) - p] == log[p:] and is_subseq(got[len(log) - p:], extra_ok)
                  and len(got) >= len(log) - p]
            det = {'topic': t, 'returned_reads': c, 'in_flight': req.get('op') if hi != c else None, 'appended': len(log), 'recovered': len(got),
                   'mode': params.get('mode')}
            if not ps:
                findings.append({'prop': 'C09', 'cls': 'resume-not-a-suffix', 'detail': {**det, 'first_got': got[:2]}})
                continue
            strict = params.get('mode', 'strict') == 'strict'
            resync = bool(T and T['resync'])
            if strict:
                ok = [p for p in ps if c <= p <= hi]
                if not ok:
                    p = min(ps, key=lambda p: abs(p - c))
                    cls = 'redelivered-after-crash(strict)' if p < c else 'skipped-after-crash(strict)'
                    findings.append({'prop': 'C09', 'cls': cls, 'detail': {**det, 'resumed_at': p}})
            else:
                ok = [p for p in ps if p <= hi]
                if not ok:
                    findings.append({'prop': 'C09', 'cls': 'skipped-after-crash(alo)', 'detail': {**det, 'resumed_at': min(ps)}})
                elif not resync and t not in used_br and isinstance(params.get('mode'), dict):
                    pe = params['mode'].get('alo', 1)
                    p = max(ok)
                    if c - p > pe:
                        findings.append({'prop': 'C09', 'cls': 'redelivery-exceeds-persist-every', 'detail': {**det, 'resumed_at': p, 'persist_every': pe}})
    return findings, n_cmp

def crash_case(binary, prog, spec, recover_api='rn', timeout=120.0):
    """returns dict(outcome=..., findings=[{prop, cls, detail}], info=...)"""
    d = fresh_dir('crash')
    set_dir(prog, d)
    sr = SeqRunner(binary, timeout=timeout, stop_on=('stream', 'open', 'dead'))
    def on_spawn(s):
        if s.processes == spec['proc']:
            if 'batch' in spec:
                s.w.send({'op': 'batch_crash', 'nth': spec['batch'], 'keep': spec['keep']})
            else:
                s.w.send({'op': 'crash_at', 'class': spec['class'], 'k': spec['k']})
    sr.on_spawn = on_spawn
    d2 = None
    try:
        sr.run(prog)
        if sr.dead is None or sr.dead.code != 137:
            other = [f['cls'] for f in sr.findings]
            return {'outcome': 'not-reached', 'findings': [], 'pre': other, 'info': {}}
        I = sr.inst[1]
        params = dict(I.params)
        req = sr.last_inflight or {}
        it, ients = inflight_entries(req)
        topics = sorted(set(I.topics) | ({it} if it else set()))
        topics = [t for t in topics if len(t) < 200]
        findings = []
        info = {'inflight': req.get('op'), 'opi': sr.opi, 'acked': sum(len(T.log) for T in I.topics.values()),
                'consumed': sum(T.consumed for T in I.topics.values()), 'lifetimes': I.lifetimes}
        # ---- (a) full log: copy without the cursor index
        d2 = fresh_dir('full')
        sparse_copy_tree(d, d2)
        for root, _dirs, files in os.walk(d2):
            for f in files:
                if f.startswith('read_offset_idx'):
                    os.remove(os.path.join(root, f))
        full = recover(binary, d2, params, topics, recover_api)
        rmdir(d2); d2 = None
        asleft = recover(binary, d, params, topics, 'rn' if recover_api == 'br' else recover_api)
        findings, n_cmp = judge(model_of(I), params, req, topics, full, asleft, used_br_of(prog['ops'][:sr.opi + 1]))
        info['compared_entries'] = n_cmp
        return {'outcome': 'crashed', 'findings': findings, 'info': info, 'pre': []}
    finally:
        rmdir(d)
        if d2:
            rmdir(d2)
        for p in prog['instances'].values():
            p.pop('dir', None)
