"""Helpers around the `dw` harness (real distributed-walrus sources over the stand-in crates)."""
import json, os, socket, subprocess, time
from . import common
from .wsrv import Wsrv

STANDINS = ['standins/tokio: blocking thread-per-task stand-in for the tokio API subset the sources use',
            'standins/bincode: re-implementation of the bincode 1.3 default wire format over serde (real bincode is not in the cargo cache)',
            'standins/octopii: in-process linearizable command log instead of the Raft node (metadata consensus assumed correct - that is C19)',
            'harness/dw/src/serve.rs mirrors the wiring of distributed-walrus/src/main.rs, which cannot be compiled here']

def build(profile='debug'):
    return common.build('dw', profile)

def run_mode(binary, args, timeout=3600):
    r = subprocess.run([binary] + [str(a) for a in args], capture_output=True, text=True, timeout=timeout, env=dict(os.environ, WALRUS_QUIET='1'))
    lines = [l for l in r.stdout.splitlines() if l.startswith('{')]
    if r.returncode != 0 or not lines:
        raise RuntimeError(f'dw {args} failed rc={r.returncode}: {r.stderr[-800:]}')
    return json.loads(lines[-1])

def free_ports(n):
    socks, ports = [], []
    for _ in range(n):
        s = socket.socket()
        s.bind(('127.0.0.1', 0))
        socks.append(s); ports.append(s.getsockname()[1])
    for s in socks:
        s.close()
    return ports

class Client:
    """length-prefixed text protocol of distributed-walrus/src/client.rs"""
    def __init__(self, port, timeout=30.0):
        self.s = socket.create_connection(('127.0.0.1', port), timeout=timeout)
        self.s.settimeout(timeout)
    def send_raw(self, b):
        self.s.sendall(b)
    def send_frame(self, text):
        b = text if isinstance(text, bytes) else text.encode()
        self.s.sendall(len(b).to_bytes(4, 'little') + b)
    def recv_frame(self):
        hdr = self._read(4)
        if hdr is None:
            return None
        n = int.from_bytes(hdr, 'little')
        body = self._read(n)
        return body
    def _read(self, n):
        buf = b''
        while len(buf) < n:
            try:
                c = self.s.recv(n - len(buf))
            except (socket.timeout, ConnectionError, OSError):
                return None
            if not c:
                return None
            buf += c
        return buf
    def cmd(self, text):
        self.send_frame(text)
        r = self.recv_frame()
        return None if r is None else r.decode('utf-8', 'replace')
    def close(self):
        try: self.s.close()
        except Exception: pass

class Cluster:
    def __init__(self, binary, d, nodes=1, threshold=1000000, delay_seed=0, lag_us=0, backend='fd', lease_loop=True, monitor=True, monitor_ms=50, timeout=60):
        self.w = Wsrv(binary, timeout=timeout, args=['serve'])
        for attempt in range(5):
            self.ports = free_ports(nodes)
            r = self.w.send({'op': 'start', 'dir': d, 'nodes': nodes, 'threshold': threshold, 'delay_seed': delay_seed, 'lag_us': lag_us,
                             'ports': self.ports, 'backend': backend, 'lease_loop': lease_loop, 'monitor': monitor, 'monitor_ms': monitor_ms})
            if r.get('ok'):
                self.info = r
                break
            raise RuntimeError('cluster start failed: %r' % r)
        # wait for the listeners
        t0 = time.time()
        for p in self.ports:
            while True:
                try:
                    socket.create_connection(('127.0.0.1', p), timeout=1).close()
                    break
                except OSError:
                    if time.time() - t0 > 20:
                        raise RuntimeError('client listener did not come up')
                    time.sleep(0.02)
    def client(self, node=0, timeout=30.0):
        return Client(self.ports[node], timeout)
    def ctl(self, op, **kw):
        kw['op'] = op
        return self.w.send(kw)
    def close(self):
        self.w.close()
