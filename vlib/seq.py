"""Sequential reference model + lock-step runner for programs executed against wsrv.

The runner only *observes*: it records what the engine returned next to what the model expects and
emits finding records; the checks decide which property a record refutes.
Finding record: dict(kind=..., cls=..., detail=..., opi=index of the op, ctx=set of context flags)
 kinds: stream | progress | cap | budget | count | peek | offset | open | panic | error | marker | failed-visible
"""
import os, time
from .payload import summary, suffix_summary, decode_head
from .wsrv import Wsrv, Dead
from . import common

MAX_BATCH_ENTRIES = 2000
HDR = 256
BLOCK = 10 * 1024 * 1024

class Topic:
    def __init__(self):
        self.log = []          # acknowledged (tag, len) in order
        self.consumed = 0
        self.tagidx = {}
        self.resync = False    # AtLeastOnce after a restart: position re-learned from the next read
        self.count_known = True
        self.failed_tags = {}   # entries of appends that returned an error
        self.inflight_tags = []
    def add(self, tag, ln):
        self.tagidx[tag] = len(self.log)
        self.log.append((tag, ln))
    @property
    def remaining(self):
        return len(self.log) - self.consumed

class Instance:
    def __init__(self, params):
        self.params = dict(params)   # dir, key, mode, sched, backend, via
        self.topics = {}
        self.is_open = False
        self.lifetimes = 0
        self.markers = {}            # topic -> expected clean flag
        self.had_failed_op = False
    def topic(self, t):
        if t not in self.topics:
            self.topics[t] = Topic()
        return self.topics[t]
    @property
    def strict(self):
        return self.params.get('mode', 'strict') == 'strict'

class Halt(Exception):
    pass

class SeqRunner:
    def __init__(self, binary, timeout=120.0, env=None, prefix=None, stderr_path=None, stop_on=('stream', 'open', 'dead')):
        self.binary, self.timeout, self.env, self.prefix = binary, timeout, env, prefix
        self.stderr_path = stderr_path
        self.w = None
        self.inst = {}
        self.findings = []
        self.stats = {}
        self.opi = -1
        self.stop_on = set(stop_on)
        self.transcript = []      # normalised results of every op (used by twin / differential checks)
        self.dead = None
        self.processes = 0
        self.probe_peeks = False
        self.on_spawn = None      # callback(runner) right after a worker process was started (crash arming, tracing)
        self.on_close = None      # callback(runner) right before a live worker process is shut down
        self.on_step = None       # callback(runner, op index, op) after every program op
        self.last_inflight = None

    # ------------------------------------------------------------------ plumbing
    def stat(self, k, n=1):
        self.stats[k] = self.stats.get(k, 0) + n

    def spawn(self):
        self.w = Wsrv(self.binary, timeout=self.timeout, env=self.env, prefix=self.prefix, stderr_path=self.stderr_path)
        self.processes += 1
        self.last_inflight = None
        if self.on_spawn:
            self.on_spawn(self)

    def close(self):
        if self.w:
            if self.on_close and self.dead is None:
                try:
                    self.on_close(self)
                except Dead:
                    pass
            self.w.close()
            self.w = None

    def finding(self, kind, cls, detail, **ctx):
        f = {'kind': kind, 'cls': cls, 'detail': detail, 'opi': self.opi, 'ctx': ctx}
        self.findings.append(f)
        if kind in self.stop_on:
            raise Halt()

    def call(self, req):
        if self.w is None:
            self.spawn()
        try:
            return self.w.send(req)
        except Dead as d:
            self.dead = d
            self.last_inflight = req
            self.finding('dead', 'timeout' if d.code is None else f'exit({d.code})', f'worker died during {req}', req=req)
            raise Halt()

    # ------------------------------------------------------------------ ops
    def do_open(self, h, params=None):
        if params is not None:
            self.inst[h] = Instance(params) if h not in self.inst else self.inst[h]
            self.inst[h].params.update(params)
        I = self.inst[h]
        p = I.params
        req = {'op': 'open', 'h': h, 'mode': p.get('mode', 'strict'), 'sched': p.get('sched', 'none'),
               'backend': p.get('backend', 'fd'), 'via': p.get('via', 'builder')}
        if p.get('dir') is not None:
            req['dir'] = p['dir']
        if p.get('key') is not None:
            req['key'] = p['key']
        if req['via'] != 'builder' and p.get('dir') is not None:
            # the constructors without a builder take the data directory from the environment, as distributed-walrus/src/bucket.rs does:
            # set_var("WALRUS_DATA_DIR", dir) right before the constructor call
            self.call({'op': 'setenv', 'k': 'WALRUS_DATA_DIR', 'v': p['dir']})
            self.stat('opens_via_env')
        r = self.call(req)
        self.transcript.append(('open', 'ok' if r.get('ok') else ('panic' if 'panic' in r else 'err:' + str(r.get('err')))))
        if r.get('ok'):
            I.is_open = True
            I.lifetimes += 1
            if I.lifetimes > 1:
                self.stat('reopens')
                for T in I.topics.values():
                    if not I.strict:
                        if T.resync and getattr(T, 'cands', None):
                            T.consumed = max(T.cands)
                        T.resync = True
                        T.cands = None
                        T.count_known = False
            return True
        cls = 'open-failed(panic)' if 'panic' in r else f'open-failed(err:{r.get("err")})'
        self.finding('open', cls, r, lifetime=I.lifetimes + 1)
        return False

    def do_drop(self, h):
        r = self.call({'op': 'drop', 'h': h})
        self.inst[h].is_open = False
        return r

    def restart_process(self, clock=None):
        """clean shutdown of every instance, fresh process, reopen all that were open"""
        open_h = [h for h, I in self.inst.items() if I.is_open]
        for h in open_h:
            self.do_drop(h)
        self.close()
        self.spawn()
        self.stat('process_restarts')
        if clock is not None:
            self.call({'op': 'clock', 'ms': clock})
            self.stat('clock_overrides')
        for h in open_h:
            self.do_open(h)

    def reopen(self, h):
        self.do_drop(h)
        self.do_open(h)

    def _ctx(self, I, T):
        return dict(restarted=I.lifetimes > 1, failed_before=I.had_failed_op, strict=I.strict)

    def do_append(self, h, t, tag, ln, expect='ok'):
        I = self.inst[h]; T = I.topic(t)
        r = self.call({'op': 'append', 'h': h, 't': t, 'tag': tag, 'len': ln})
        return self._append_result(I, T, t, [(tag, ln)], r, expect, 'append')

    def do_batch(self, h, t, entries, expect='ok', rep=None):
        I = self.inst[h]; T = I.topic(t)
        if rep:
            req_entries = [[tag, ln, rep] for tag, ln in entries]
            flat = [(tag, ln) for tag, ln in entries for _ in range(rep)]
        else:
            req_entries = [[tag, ln] for tag, ln in entries]
            flat = list(entries)
        r = self.call({'op': 'batch', 'h': h, 't': t, 'entries': req_entries})
        return self._append_result(I, T, t, flat, r, expect, 'batch')

    def _append_result(self, I, T, t, entries, r, expect, what):
        if r.get('ok'):
            self.transcript.append((what, 'ok'))
            for tag, ln in entries:
                T.add(tag, ln)
            if entries:
                I.markers[t] = False
            self.stat(what + '_ok')
            if expect == 'err':
                self.finding('error', f'{what}-accepted-but-must-be-rejected', {'n': len(entries)}, **self._ctx(I, T))
            return 'ok'
        # the engine marks the topic dirty before it attempts the write
        I.markers[t] = False
        for tag, _ in entries:
            T.failed_tags[tag] = f'{what}:{getattr(self, "cur_fault", None) or "rejected"}'
        I.had_failed_op = True
        if 'panic' in r:
            self.transcript.append((what, 'panic'))
            self.stat(what + '_panic')
            self.finding('panic', f'panic({what})', r['panic'][:300], expect=expect, **self._ctx(I, T))
            return 'panic'
        self.transcript.append((what, 'err:' + str(r.get('err'))))
        self.stat(what + '_err')
        if expect == 'ok':
            self.finding('error', f'error({what}:{r.get("err")})', r.get('msg', ''), **self._ctx(I, T))
        return 'err'

    # ---- stream comparison
    def _locate(self, I, T, g):
        """index in T.log of the appended entry that `g` is byte-identical to, else a class string"""
        d = decode_head(g)
        if d is None:
            return None
        tag, ln = d
        if tag in T.tagidx:
            j = T.tagidx[tag]
            if summary(*T.log[j]) == tuple(g):
                return j
            return 'corrupt-bytes'
        if tag in T.failed_tags:
            return f'failed-op-visible({T.failed_tags[tag]})'
        for tn, O in I.topics.items():
            if O is not T and tag in O.tagidx:
                return 'foreign-entry'
        for h2, I2 in self.inst.items():
            if I2 is not I:
                for O in I2.topics.values():
                    if tag in O.tagidx:
                        return 'foreign-instance-entry'
        return 'invented-entry'

    def _check_stream(self, I, T, t, got, api, consuming, cursor_hint=None):
        """compare returned entries with the model's expectation at the cursor; returns #matched"""
        ctx = self._ctx(I, T); ctx['api'] = api; ctx['topic'] = t
        got = [tuple(g) for g in got]
        if T.resync:
            # AtLeastOnce after a restart: the cursor may have been rewound (never advanced). Track the set of cursor positions
            # that are consistent with everything returned since the restart; entries shorter than 16 bytes carry no tag, so
            # the position can stay ambiguous for a while.
            cands = getattr(T, 'cands', None)
            if cands is None:
                cands = set(range(0, T.consumed + 1))
            n = len(got)
            if n == 0:
                match = {p for p in cands if p >= len(T.log)}
            else:
                match = {p for p in cands if p + n <= len(T.log) and all(summary(*T.log[p + i]) == got[i] for i in range(n))}
            if match:
                hi = max(match)
                self.stat('alo_resync_reads')
                if consuming:
                    if n:
                        self.stat('alo_redelivered_after_restart', max(0, T.consumed - hi))
                    T.consumed = hi            # the caller adds n
                    new = {p + n for p in match}
                    if len(new) == 1:
                        T.resync = False
                        T.cands = None
                    else:
                        T.cands = new
                else:
                    T.cands = match
                return n
            if n == 0:
                self.finding('stream', 'empty-while-unconsumed', {'topic': t, 'candidates': sorted(cands)[:5], 'appended': len(T.log)}, **ctx)
                return 0
            j = self._locate(I, T, got[0])
            if isinstance(j, int) and j > max(cands):
                self.finding('stream', 'skipped(after-restart)', {'expected_at_most': max(cands), 'got_index': j}, **ctx)
            elif isinstance(j, int):
                self.finding('stream', 'mismatch(after-restart)', {'first_index': j, 'candidates': sorted(cands)[:5], 'n': n}, **ctx)
            elif j is None:
                self.finding('stream', 'corrupt-bytes(after-restart)', {'got': got[0]}, **ctx)
            else:
                self.finding('stream', j, {'got': got[0]}, **ctx)
            return 0
        return self._check_stream_at(I, T, t, got, api, ctx)

    def _check_stream_at(self, I, T, t, got, api, ctx):
        base = T.consumed
        if not got:
            if T.remaining > 0:
                self.finding('stream', 'empty-while-unconsumed', {'topic': t, 'consumed': base, 'appended': len(T.log),
                                                                  'next': T.log[base]}, **ctx)
            return 0
        for i, g in enumerate(got):
            e = base + i
            if e >= len(T.log):
                j = self._locate(I, T, g)
                cls = 'redelivered' if isinstance(j, int) else (j or 'invented-entry')
                self.finding('stream', cls, {'topic': t, 'at': e, 'appended': len(T.log), 'got': g, 'is_index': j}, **ctx)
                return i
            exp = summary(*T.log[e])
            if g != exp:
                j = self._locate(I, T, g)
                if isinstance(j, int):
                    cls = f'skipped' if j > e else 'redelivered'
                    det = {'topic': t, 'expected_index': e, 'got_index': j, 'expected': T.log[e], 'pos_in_result': i}
                elif j is None:
                    cls = 'corrupt-bytes'
                    det = {'topic': t, 'expected_index': e, 'expected': exp, 'got': g}
                else:
                    cls = j
                    det = {'topic': t, 'expected_index': e, 'expected': exp, 'got': g}
                self.finding('stream', cls, det, **ctx)
                return i
        return len(got)

    def _probe(self, h):
        fs = self.call({'op': 'file_states'}).get('files')
        bs = self.call({'op': 'block_states'}).get('blocks')
        cs = self.call({'op': 'counts', 'h': h}).get('m')
        return {'files': fs, 'blocks': bs, 'counts': cs}

    def _block_ranges(self, h):
        """block id -> (topic, first entry index, end entry index) from the engine's layout accessor and the model's entry sizes"""
        out = {}
        I = self.inst[h]
        for t, T in I.topics.items():
            lay = self.call({'op': 'layout', 'h': h, 't': t}).get('blocks') or []
            i = 0
            for bid, _f, _off, used, _tail in lay:
                acc, first = 0, i
                while i < len(T.log) and acc + HDR + T.log[i][1] <= used:
                    acc += HDR + T.log[i][1]
                    i += 1
                if acc != used:
                    return None   # layout does not match the model (failed ops, recovery): no verdict
                out[bid] = (t, first, i)
        return out

    def _probe_cmp(self, I, T, t, before, what, h=1):
        """a non-consuming call may only let bookkeeping catch up: a block may become 'checkpointed' (reclaimable) only if
        every entry stored in it had already been consumed; counts never change"""
        after = self._probe_last
        self.stat('peek_probes')
        if before['counts'] != after['counts']:
            self.finding('peek', 'peek-changed-counts', {'topic': t, 'call': what, 'before': before['counts'], 'after': after['counts']}, **self._ctx(I, T))
        bb = {b[0]: b for b in before['blocks'] or []}
        newly = [b for b in (after['blocks'] or []) if b[2] and not (bb.get(b[0]) or [0, 0, False])[2]]
        unmarked = [b for b in (after['blocks'] or []) if not b[2] and (bb.get(b[0]) or [0, 0, False])[2]]
        if unmarked:
            self.finding('peek', 'peek-changed-blocks', {'topic': t, 'call': what, 'unmarked': unmarked[:5]}, **self._ctx(I, T))
        if newly:
            self.stat('peek_lazy_marks', len(newly))
            rng = self._block_ranges(h)
            for b in newly:
                if rng is None or b[0] not in rng:
                    self.stat('peek_mark_unmapped')
                    continue
                tt, first, end = rng[b[0]]
                if end > I.topics[tt].consumed:
                    self.finding('peek', 'peek-made-unconsumed-block-reclaimable',
                                 {'topic': tt, 'call': what, 'block': b[0], 'entries': [first, end], 'consumed': I.topics[tt].consumed}, **self._ctx(I, T))
        # per-file counters: only the checkpoint counter may move, by the number of newly marked blocks of that file
        fb = {f[0]: f for f in before['files'] or []}
        for f in after['files'] or []:
            o = fb.get(f[0])
            if o is None:
                continue
            exp = list(o)
            exp[2] = o[2] + sum(1 for b in newly if b[1] == f[0])
            if list(f) != exp:
                self.finding('peek', 'peek-changed-files', {'topic': t, 'call': what, 'before': o, 'after': f, 'newly_marked': len(newly)}, **self._ctx(I, T))
        for k in fb:
            if k not in {f[0] for f in after['files'] or []}:
                self.finding('peek', 'peek-changed-files', {'topic': t, 'call': what, 'vanished': k}, **self._ctx(I, T))

    def do_read_next(self, h, t, cp=True):
        I = self.inst[h]; T = I.topic(t)
        if self.probe_peeks and not cp:
            before = self._probe(h)
            r = self.call({'op': 'read_next', 'h': h, 't': t, 'cp': cp})
            self._probe_last = self._probe(h)
            self._probe_cmp(I, T, t, before, 'read_next(cp=false)', h)
        else:
            r = self.call({'op': 'read_next', 'h': h, 't': t, 'cp': cp})
        if not r.get('ok'):
            self.transcript.append(('rn', 'panic' if 'panic' in r else 'err:' + str(r.get('err'))))
            kind = 'panic' if 'panic' in r else 'error'
            self.finding(kind, f'{kind}(read_next)', r, **self._ctx(I, T))
            return None
        got = r['e']
        self.transcript.append(('rn', tuple(tuple(g) for g in got)))
        n = self._check_stream(I, T, t, got, 'read_next', cp)
        self.stat('rn_consume' if cp else 'rn_peek')
        if cp:
            T.consumed += n
            self.stat('entries_consumed', n)
        return got

    def do_batch_read(self, h, t, mx, cp=True, start=None):
        I = self.inst[h]; T = I.topic(t)
        req = {'op': 'batch_read', 'h': h, 't': t, 'max': mx, 'cp': cp}
        if start is not None:
            req['start'] = start
        if self.probe_peeks and (not cp or start is not None):
            before = self._probe(h)
            r = self.call(req)
            self._probe_last = self._probe(h)
            self._probe_cmp(I, T, t, before, f'batch_read(max={mx},cp={cp},start={start})', h)
        else:
            r = self.call(req)
        if not r.get('ok'):
            self.transcript.append(('br', 'panic' if 'panic' in r else 'err:' + str(r.get('err'))))
            kind = 'panic' if 'panic' in r else 'error'
            self.finding(kind, f'{kind}(batch_read)', {'r': r, 'max': mx, 'start': start}, budget=mx, **self._ctx(I, T))
            return None
        got = [tuple(g) for g in r['e']]
        self.transcript.append(('br', tuple(got)))
        ctx = self._ctx(I, T)
        # C03 bounds hold for every batch read, whatever the addressing mode
        if len(got) > MAX_BATCH_ENTRIES:
            self.finding('cap', 'cap-exceeded', {'n': len(got), 'max': mx, 'start': start}, **ctx)
        tot = sum(g[0] for g in got)
        if tot > mx and len(got) != 1:
            self.finding('budget', 'budget-exceeded', {'n': len(got), 'total': tot, 'max': mx, 'start': start}, **ctx)
        if start is not None:
            self.stat('br_offset')
            self._check_offset_read(I, T, t, got, start, ctx)
            return got
        if not got and T.remaining > 0:
            self.finding('progress', 'no-progress', {'topic': t, 'max': mx, 'cp': cp, 'consumed': T.consumed,
                                                     'appended': len(T.log)}, budget=mx, **ctx)
        n = self._check_stream(I, T, t, got, 'batch_read', cp)
        self.stat('br_consume' if cp else 'br_peek')
        if got:
            self.stat('br_nonempty')
            if len(got) > 1:
                self.stat('br_multi')
        if cp:
            T.consumed += n
            self.stat('entries_consumed', n)
        return got

    def _check_offset_read(self, I, T, t, got, start, ctx):
        """result must be a subsequence of the topic's log, in order; only the first element may be a
        proper suffix of an entry"""
        pos = 0
        for i, g in enumerate(got):
            j = self._locate(I, T, g)
            if isinstance(j, int):
                if j < pos:
                    self.finding('offset', 'offset-read-not-subsequence', {'why': 'order', 'i': i, 'index': j, 'after': pos, 'start': start}, **ctx)
                    return
                pos = j + 1
                continue
            if j is None or i == 0:
                # short entry (< 16 bytes, no tag) or - first element only - a proper suffix of an entry: accept the earliest
                # admissible position (sound: never stricter than the property)
                found = None
                for k in range(pos, len(T.log)):
                    tag, ln = T.log[k]
                    if ln == g[0] and summary(tag, ln) == g:
                        found = k
                        break
                    if i == 0 and ln > g[0] and suffix_summary(tag, ln, ln - g[0]) == g:
                        found = k
                        self.stat('offset_suffix_hits')
                        break
                if found is not None:
                    pos = found + 1
                    continue
            self.finding('offset', 'offset-read-not-subsequence', {'why': j or 'unknown-short', 'i': i, 'got': g, 'start': start}, **ctx)
            return

    def do_count(self, h, t):
        I = self.inst[h]; T = I.topic(t)
        r = self.call({'op': 'count', 'h': h, 't': t})
        self.transcript.append(('count', r.get('n')))
        self.stat('count_checks')
        if T.count_known and not T.resync and r.get('n') != T.remaining:
            self.finding('count', 'count-differs(after-restart)' if I.lifetimes > 1 else 'count-differs(same-life)',
                         {'topic': t, 'reported': r.get('n'), 'expected': T.remaining, 'appended': len(T.log), 'consumed': T.consumed},
                         **self._ctx(I, T))
        return r.get('n')

    def do_counts(self, h):
        I = self.inst[h]
        r = self.call({'op': 'counts', 'h': h})
        m = r.get('m', {})
        self.transcript.append(('counts', tuple(sorted(m.items()))))
        self.stat('count_checks')
        for t, n in m.items():
            T = I.topics.get(t)
            if T is None:
                if n != 0:
                    self.finding('count', 'count-for-unknown-topic', {'topic': t, 'n': n}, restarted=I.lifetimes > 1, strict=I.strict, failed_before=I.had_failed_op)
                continue
            if T.count_known and not T.resync and n != T.remaining:
                self.finding('count', 'count-differs(after-restart)' if I.lifetimes > 1 else 'count-differs(same-life)',
                             {'topic': t, 'reported': n, 'expected': T.remaining, 'via': 'topic_entry_counts'}, **self._ctx(I, T))
        for t, T in I.topics.items():
            if t not in m and T.count_known and not T.resync and T.remaining != 0:
                self.finding('count', 'count-differs(after-restart)' if I.lifetimes > 1 else 'count-differs(same-life)',
                             {'topic': t, 'reported': None, 'expected': T.remaining, 'via': 'topic_entry_counts'}, **self._ctx(I, T))
        return m

    def do_marker(self, h, t, what):
        I = self.inst[h]
        if what == 'is_clean':
            r = self.call({'op': 'is_clean', 'h': h, 't': t})
            exp = I.markers.get(t, True)
            self.transcript.append(('is_clean', r.get('clean')))
            self.stat('marker_checks')
            if r.get('clean') != exp:
                self.finding('marker', 'state-lost-on-reopen' if I.lifetimes > 1 and not I.markers_touched_this_life.get(t) else 'state-differs-in-process',
                             {'topic': t, 'reported': r.get('clean'), 'expected': exp, 'lifetime': I.lifetimes})
            return r.get('clean')
        self.call({'op': what, 'h': h, 't': t})
        I.markers[t] = (what == 'mark_clean')
        return None

    def drain(self, h, t, api='rn', budget=1 << 20, limit=100000):
        """consume until the engine reports empty; the model then must be exhausted too"""
        I = self.inst[h]; T = I.topic(t)
        n = 0
        while n < limit:
            got = self.do_read_next(h, t, True) if api == 'rn' else self.do_batch_read(h, t, budget, True)
            if not got:
                break
            n += len(got)
        return n

    # ------------------------------------------------------------------ program execution
    def run(self, prog):
        """prog: {'instances': {h: params}, 'ops': [...]}; returns self (findings, stats, transcript)"""
        try:
            for h, params in prog.get('instances', {}).items():
                h = int(h)
                self.inst[h] = Instance(params)
                self.inst[h].markers_touched_this_life = {}
            for self.opi, op in enumerate(prog['ops']):
                self.step(op)
                if self.on_step:
                    self.on_step(self, self.opi, op)
        except Halt:
            pass
        finally:
            self.close()
        return self

    def step(self, op):
        k = op[0]
        a = op[1] if len(op) > 1 else {}
        h = a.get('h', 1)
        if k == 'open':
            self.do_open(h, a.get('params'))
            self.inst[h].markers_touched_this_life = {}
        elif k == 'drop':
            self.do_drop(h)
        elif k == 'reopen':
            self.reopen(h)
            self.inst[h].markers_touched_this_life = {}
        elif k == 'restart':
            self.restart_process(a.get('clock'))
            for I in self.inst.values():
                I.markers_touched_this_life = {}
        elif k == 'append':
            self.do_append(h, a['t'], a['tag'], a['len'], a.get('expect', 'ok'))
            self.inst[h].markers_touched_this_life[a['t']] = True
        elif k == 'batch':
            self.do_batch(h, a['t'], [tuple(e) for e in a['entries']], a.get('expect', 'ok'), a.get('rep'))
            self.inst[h].markers_touched_this_life[a['t']] = True
        elif k == 'fault':
            self.do_fault(h, a)
        elif k == 'rn':
            self.do_read_next(h, a['t'], a.get('cp', True))
        elif k == 'br':
            self.do_batch_read(h, a['t'], a['max'], a.get('cp', True), a.get('start'))
        elif k == 'peekpair':
            self.do_peekpair(h, a)
        elif k == 'count':
            self.do_count(h, a['t'])
        elif k == 'counts':
            self.do_counts(h)
        elif k in ('mark_clean', 'mark_dirty', 'is_clean'):
            self.do_marker(h, a['t'], k)
            if k != 'is_clean':
                self.inst[h].markers_touched_this_life[a['t']] = True
        elif k == 'drain':
            self.drain(h, a['t'], a.get('api', 'rn'), a.get('max', 1 << 20))
        elif k == 'raw':
            r = self.call(a['req'])
            self.transcript.append(('raw', a['req'].get('op')))
            if a.get('save'):
                self.stats.setdefault('raw', {})[a['save']] = r
        else:
            raise ValueError('unknown op ' + str(k))

    def do_fault(self, h, a):
        """arm one injected I/O failure, run the wrapped append/batch, disarm; the engine's reply decides the model"""
        k = a['kind']
        hits0 = self.call({'op': 'fail_hits'}).get('n', 0)
        if k.startswith('cqe'):
            self.call({'op': 'cqe', 'idx': a['idx'], 'res': a['res']})
        else:
            self.call({'op': 'failpoint', 'kind': k, 'nth': a.get('nth', 0)})
        inner = a['then']
        nf = len(self.findings)
        self.cur_fault = k
        try:
            self.step(inner)
        finally:
            self.cur_fault = None
            if self.w is not None and self.dead is None:
                self.call({'op': 'failpoint'})
                self.call({'op': 'cqe', 'idx': -1, 'res': 0})
                hits = self.call({'op': 'fail_hits'}).get('n', 0)
                self.stat('faults_armed')
                if hits > hits0:
                    self.stat('faults_hit')
                    self.stat('fault_hit:' + k)
                    last = self.transcript[-1] if self.transcript else None
                    if last and last[1] != 'ok':
                        self.stat('faulted_op_failed')
                for f in self.findings[nf:]:
                    f['ctx']['fault'] = k

    def do_peekpair(self, h, a):
        """a peek immediately followed by the consuming call with identical arguments"""
        I = self.inst[h]; t = a['t']; T = I.topic(t)
        if a['api'] == 'rn':
            p = self.do_read_next(h, t, False)
            c = self.do_read_next(h, t, True)
        else:
            p = self.do_batch_read(h, t, a['max'], False)
            c = self.do_batch_read(h, t, a['max'], True)
        self.stat('peek_pairs')
        if p is not None and c is not None and [tuple(x) for x in p] != [tuple(x) for x in c]:
            self.finding('peek', 'peek-differs-from-consume', {'topic': t, 'api': a['api'], 'max': a.get('max'),
                                                               'peek_n': len(p), 'consume_n': len(c),
                                                               'peek_first': p[:1], 'consume_first': c[:1]}, **self._ctx(I, T))
