"""Sequential reference model + lock-step runner for programs executed against wsrv.

The runner only *observes*: it records what the engine returned next to what the model expects and
emits finding records; the checks decide which property a record refutes.
Finding record: dict(kind=..., cls=..., detail=..., opi=index of the op, ctx=set of context flags)
 kinds: stream | progress | cap | budget | count | peek | offset | open | panic | error | marker | failed-visible
"""
import os, time
from .payload import summary, suffix_summary, decode_head
from .wsrv import Wsrv, Dead
from . import common

MAX_BATCH_ENTRIES = 2000
HDR = 256
BLOCK = 10 * 1024 * 1024

class Topic:
    def __init__(self):
        self.log = []          # acknowledged (tag, len) in order
        self.consumed = 0
        self.tagidx = {}
        self.resync = False    # AtLeastOnce after a restart: position re-learned from the next read
        self.count_known = True
        self.failed_tags = set()   # entries of appends that returned an error
        self.inflight_tags = []
    def add(self, tag, ln):
        self.tagidx[tag] = len(self.log)
        self.log.append((tag, ln))
    @property
    def remaining(self):
        return len(self.log) - self.consumed

class Instance:
    def __init__(self, params):
        self.params = dict(params)   # dir, key, mode, sched, backend, via
        self.topics = {}
        self.is_open = False
        self.lifetimes = 0
        self.markers = {}            # topic -> expected clean flag
        self.had_failed_op = False
    def topic(self, t):
        if t not in self.topics:
            self.topics[t] = Topic()
        return self.topics[t]
    @property
    def strict(self):
        return self.params.get('mode', 'strict') == 'strict'

class Halt(Exception):
    pass

class SeqRunner:
    def __init__(self, binary, timeout=120.0, env=None, prefix=None, stderr_path=None, stop_on=('stream', 'open', 'dead')):
        self.binary, self.timeout, self.env, self.prefix = binary, timeout, env, prefix
        self.stderr_path = stderr_path
        self.w = None
        self.inst = {}
        self.findings = []
        self.stats = {}
        self.opi = -1
        self.stop_on = set(stop_on)
        self.transcript = []      # normalised results of every op (used by twin / differential checks)
        self.dead = None
        self.processes = 0

    # ------------------------------------------------------------------ plumbing
    def stat(self, k, n=1):
        self.stats[k] = self.stats.get(k, 0) + n

    def spawn(self):
        self.w = Wsrv(self.binary, timeout=self.timeout, env=self.env, prefix=self.prefix, stderr_path=self.stderr_path)
        self.processes += 1

    def close(self):
        if self.w:
            self.w.close()
            self.w = None

    def finding(self, kind, cls, detail, **ctx):
        f = {'kind': kind, 'cls': cls, 'detail': detail, 'opi': self.opi, 'ctx': ctx}
        self.findings.append(f)
        if kind in self.stop_on:
            raise Halt()

    def call(self, req):
        if self.w is None:
            self.spawn()
        try:
            return self.w.send(req)
        except Dead as d:
            self.dead = d
            self.finding('dead', 'timeout' if d.code is None else f'exit({d.code})', f'worker died during {req}', req=req)
            raise Halt()

    # ------------------------------------------------------------------ ops
    def do_open(self, h, params=None):
        if params is not None:
            self.inst[h] = Instance(params) if h not in self.inst else self.inst[h]
            self.inst[h].params.update(params)
        I = self.inst[h]
        p = I.params
        req = {'op': 'open', 'h': h, 'mode': p.get('mode', 'strict'), 'sched': p.get('sched', 'none'),
               'backend': p.get('backend', 'fd'), 'via': p.get('via', 'builder')}
        if p.get('dir') is not None:
            req['dir'] = p['dir']
        if p.get('key') is not None:
            req['key'] = p['key']
        r = self.call(req)
        self.transcript.append(('open', 'ok' if r.get('ok') else ('panic' if 'panic' in r else 'err:' + str(r.get('err')))))
        if r.get('ok'):
            I.is_open = True
            I.lifetimes += 1
            if I.lifetimes > 1:
                self.stat('reopens')
                for T in I.topics.values():
                    if not I.strict:
                        T.resync = True
                        T.count_known = False
            return True
        cls = 'open-failed(panic)' if 'panic' in r else f'open-failed(err:{r.get("err")})'
        self.finding('open', cls, r, lifetime=I.lifetimes + 1)
        return False

    def do_drop(self, h):
        r = self.call({'op': 'drop', 'h': h})
        self.inst[h].is_open = False
        return r

    def restart_process(self):
        """clean shutdown of every instance, fresh process, reopen all that were open"""
        open_h = [h for h, I in self.inst.items() if I.is_open]
        for h in open_h:
            self.do_drop(h)
        self.close()
        self.spawn()
        self.stat('process_restarts')
        for h in open_h:
            self.do_open(h)

    def reopen(self, h):
        self.do_drop(h)
        self.do_open(h)

    def _ctx(self, I, T):
        return dict(restarted=I.lifetimes > 1, failed_before=I.had_failed_op, strict=I.strict)

    def do_append(self, h, t, tag, ln, expect='ok'):
        I = self.inst[h]; T = I.topic(t)
        r = self.call({'op': 'append', 'h': h, 't': t, 'tag': tag, 'len': ln})
        return self._append_result(I, T, t, [(tag, ln)], r, expect, 'append')

    def do_batch(self, h, t, entries, expect='ok', rep=None):
        I = self.inst[h]; T = I.topic(t)
        if rep:
            req_entries = [[tag, ln, rep] for tag, ln in entries]
            flat = [(tag, ln) for tag, ln in entries for _ in range(rep)]
        else:
            req_entries = [[tag, ln] for tag, ln in entries]
            flat = list(entries)
        r = self.call({'op': 'batch', 'h': h, 't': t, 'entries': req_entries})
        return self._append_result(I, T, t, flat, r, expect, 'batch')

    def _append_result(self, I, T, t, entries, r, expect, what):
        if r.get('ok'):
            self.transcript.append((what, 'ok'))
            for tag, ln in entries:
                T.add(tag, ln)
            if entries:
                I.markers[t] = False
            self.stat(what + '_ok')
            if expect == 'err':
                self.finding('error', f'{what}-accepted-but-must-be-rejected', {'n': len(entries)}, **self._ctx(I, T))
            return 'ok'
        # the engine marks the topic dirty before it attempts the write
        I.markers[t] = False
        for tag, _ in entries:
            T.failed_tags.add(tag)
        I.had_failed_op = True
        if 'panic' in r:
            self.transcript.append((what, 'panic'))
            self.stat(what + '_panic')
            self.finding('panic', f'panic({what})', r['panic'][:300], expect=expect, **self._ctx(I, T))
            return 'panic'
        self.transcript.append((what, 'err:' + str(r.get('err'))))
        self.stat(what + '_err')
        if expect == 'ok':
            self.finding('error', f'error({what}:{r.get("err")})', r.get('msg', ''), **self._ctx(I, T))
        return 'err'

    # ---- stream comparison
    def _locate(self, I, T, g):
        """index in T.log of the appended entry that `g` is byte-identical to, else a class string"""
        d = decode_head(g)
        if d is None:
            return None
        tag, ln = d
        if tag in T.tagidx:
            j = T.tagidx[tag]
            if summary(*T.log[j]) == tuple(g):
                return j
            return 'corrupt-bytes'
        if tag in T.failed_tags:
            return 'failed-op-visible'
        for tn, O in I.topics.items():
            if O is not T and tag in O.tagidx:
                return 'foreign-entry'
        for h2, I2 in self.inst.items():
            if I2 is not I:
                for O in I2.topics.values():
                    if tag in O.tagidx:
                        return 'foreign-instance-entry'
        return 'invented-entry'

    def _check_stream(self, I, T, t, got, api, consuming, cursor_hint=None):
        """compare returned entries with the model's expectation at the cursor; returns #matched"""
        ctx = self._ctx(I, T); ctx['api'] = api; ctx['topic'] = t
        got = [tuple(g) for g in got]
        if T.resync and got:
            j = self._locate(I, T, got[0])
            if isinstance(j, int):
                if j > T.consumed:
                    self.finding('stream', f'skipped(after-restart)', {'expected_at_most': T.consumed, 'got_index': j}, **ctx)
                self.stat('alo_redelivered_after_restart', T.consumed - j)
                ctx['alo_rewind'] = T.consumed - j
                if consuming:
                    T.consumed = j
                    T.resync = False
                else:
                    # a peek after restart: compare from j without committing
                    save = T.consumed
                    T.consumed = j
                    try:
                        return self._check_stream_at(I, T, t, got, api, ctx)
                    finally:
                        T.consumed = save
            elif j is None:
                # short payload: cannot resync on it; compare against every admissible position
                for p in range(T.consumed, -1, -1):
                    if p < len(T.log) and summary(*T.log[p]) == got[0]:
                        if consuming:
                            T.consumed = p
                            T.resync = False
                        break
                else:
                    self.finding('stream', 'corrupt-bytes(after-restart)', {'got': got[0]}, **ctx)
            else:
                self.finding('stream', j, {'got': got[0]}, **ctx)
        return self._check_stream_at(I, T, t, got, api, ctx)

    def _check_stream_at(self, I, T, t, got, api, ctx):
        base = T.consumed
        if not got:
            if T.remaining > 0:
                self.finding('stream', 'empty-while-unconsumed', {'topic': t, 'consumed': base, 'appended': len(T.log),
                                                                  'next': T.log[base]}, **ctx)
            return 0
        for i, g in enumerate(got):
            e = base + i
            if e >= len(T.log):
                j = self._locate(I, T, g)
                cls = 'redelivered' if isinstance(j, int) else (j or 'invented-entry')
                self.finding('stream', cls, {'topic': t, 'at': e, 'appended': len(T.log), 'got': g, 'is_index': j}, **ctx)
                return i
            exp = summary(*T.log[e])
            if g != exp:
                j = self._locate(I, T, g)
                if isinstance(j, int):
                    cls = f'skipped' if j > e else 'redelivered'
                    det = {'topic': t, 'expected_index': e, 'got_index': j, 'expected': T.log[e], 'pos_in_result': i}
                elif j is None:
                    cls = 'corrupt-bytes'
                    det = {'topic': t, 'expected_index': e, 'expected': exp, 'got': g}
                else:
                    cls = j
                    det = {'topic': t, 'expected_index': e, 'expected': exp, 'got': g}
                self.finding('stream', cls, det, **ctx)
                return i
        return len(got)

    def do_read_next(self, h, t, cp=True):
        I = self.inst[h]; T = I.topic(t)
        r = self.call({'op': 'read_next', 'h': h, 't': t, 'cp': cp})
        if not r.get('ok'):
            self.transcript.append(('rn', 'panic' if 'panic' in r else 'err:' + str(r.get('err'))))
            kind = 'panic' if 'panic' in r else 'error'
            self.finding(kind, f'{kind}(read_next)', r, **self._ctx(I, T))
            return None
        got = r['e']
        self.transcript.append(('rn', tuple(tuple(g) for g in got)))
        n = self._check_stream(I, T, t, got, 'read_next', cp)
        self.stat('rn_consume' if cp else 'rn_peek')
        if cp:
            T.consumed += n
            self.stat('entries_consumed', n)
        return got

    def do_batch_read(self, h, t, mx, cp=True, start=None):
        I = self.inst[h]; T = I.topic(t)
        req = {'op': 'batch_read', 'h': h, 't': t, 'max': mx, 'cp': cp}
        if start is not None:
            req['start'] = start
        r = self.call(req)
        if not r.get('ok'):
            self.transcript.append(('br', 'panic' if 'panic' in r else 'err:' + str(r.get('err'))))
            kind = 'panic' if 'panic' in r else 'error'
            self.finding(kind, f'{kind}(batch_read)', {'r': r, 'max': mx, 'start': start}, budget=mx, **self._ctx(I, T))
            return None
        got = [tuple(g) for g in r['e']]
        self.transcript.append(('br', tuple(got)))
        ctx = self._ctx(I, T)
        # C03 bounds hold for every batch read, whatever the addressing mode
        if len(got) > MAX_BATCH_ENTRIES:
            self.finding('cap', 'cap-exceeded', {'n': len(got), 'max': mx, 'start': start}, **ctx)
        tot = sum(g[0] for g in got)
        if tot > mx and len(got) != 1:
            self.finding('budget', 'budget-exceeded', {'n': len(got), 'total': tot, 'max': mx, 'start': start}, **ctx)
        if start is not None:
            self.stat('br_offset')
            self._check_offset_read(I, T, t, got, start, ctx)
            return got
        if not got and T.remaining > 0:
            self.finding('progress', 'no-progress', {'topic': t, 'max': mx, 'cp': cp, 'consumed': T.consumed,
                                                     'appended': len(T.log)}, budget=mx, **ctx)
        n = self._check_stream(I, T, t, got, 'batch_read', cp)
        self.stat('br_consume' if cp else 'br_peek')
        if got:
            self.stat('br_nonempty')
            if len(got) > 1:
                self.stat('br_multi')
        if cp:
            T.consumed += n
            self.stat('entries_consumed', n)
        return got

    def _check_offset_read(self, I, T, t, got, start, ctx):
        """result must be a subsequence of the topic's log, in order; only the first element may be a
        proper suffix of an entry"""
        pos = 0
        for i, g in enumerate(got):
            j = self._locate(I, T, g)
            if isinstance(j, int):
                if j < pos:
                    self.finding('offset', 'offset-read-not-subsequence', {'why': 'order', 'i': i, 'index': j, 'after': pos, 'start': start}, **ctx)
                    return
                pos = j + 1
                continue
            if i == 0:
                # proper suffix of some entry? use the logical offset as a hint, then scan
                cands = []
                off = 0
                for k, (tag, ln) in enumerate(T.log):
                    if off <= start < off + HDR + ln:
                        cands.append(k)
                    off += HDR + ln
                cands += [k for k in range(len(T.log)) if k not in cands and T.log[k][1] > g[0]][:300]
                ok = False
                for k in cands:
                    tag, ln = T.log[k]
                    if ln > g[0] and suffix_summary(tag, ln, ln - g[0]) == g:
                        pos = k + 1
                        ok = True
                        self.stat('offset_suffix_hits')
                        break
                if ok:
                    continue
            if j is None:
                # short entry (< 16 bytes): identified by content at some position >= pos
                for k in range(pos, len(T.log)):
                    if summary(*T.log[k]) == g:
                        pos = k + 1
                        break
                else:
                    self.finding('offset', 'offset-read-not-subsequence', {'why': 'unknown-short', 'i': i, 'got': g, 'start': start}, **ctx)
                    return
                continue
            self.finding('offset', 'offset-read-not-subsequence', {'why': j, 'i': i, 'got': g, 'start': start}, **ctx)
            return

    def do_count(self, h, t):
        I = self.inst[h]; T = I.topic(t)
        r = self.call({'op': 'count', 'h': h, 't': t})
        self.transcript.append(('count', r.get('n')))
        self.stat('count_checks')
        if T.count_known and not T.resync and r.get('n') != T.remaining:
            self.finding('count', 'count-differs(after-restart)' if I.lifetimes > 1 else 'count-differs(same-life)',
                         {'topic': t, 'reported': r.get('n'), 'expected': T.remaining, 'appended': len(T.log), 'consumed': T.consumed},
                         **self._ctx(I, T))
        return r.get('n')

    def do_counts(self, h):
        I = self.inst[h]
        r = self.call({'op': 'counts', 'h': h})
        m = r.get('m', {})
        self.transcript.append(('counts', tuple(sorted(m.items()))))
        self.stat('count_checks')
        for t, n in m.items():
            T = I.topics.get(t)
            if T is None:
                if n != 0:
                    self.finding('count', 'count-for-unknown-topic', {'topic': t, 'n': n}, restarted=I.lifetimes > 1, strict=I.strict, failed_before=I.had_failed_op)
                continue
            if T.count_known and not T.resync and n != T.remaining:
                self.finding('count', 'count-differs(after-restart)' if I.lifetimes > 1 else 'count-differs(same-life)',
                             {'topic': t, 'reported': n, 'expected': T.remaining, 'via': 'topic_entry_counts'}, **self._ctx(I, T))
        for t, T in I.topics.items():
            if t not in m and T.count_known and not T.resync and T.remaining != 0:
                self.finding('count', 'count-differs(after-restart)' if I.lifetimes > 1 else 'count-differs(same-life)',
                             {'topic': t, 'reported': None, 'expected': T.remaining, 'via': 'topic_entry_counts'}, **self._ctx(I, T))
        return m

    def do_marker(self, h, t, what):
        I = self.inst[h]
        if what == 'is_clean':
            r = self.call({'op': 'is_clean', 'h': h, 't': t})
            exp = I.markers.get(t, True)
            self.transcript.append(('is_clean', r.get('clean')))
            self.stat('marker_checks')
            if r.get('clean') != exp:
                self.finding('marker', 'state-lost-on-reopen' if I.lifetimes > 1 and not I.markers_touched_this_life.get(t) else 'state-differs-in-process',
                             {'topic': t, 'reported': r.get('clean'), 'expected': exp, 'lifetime': I.lifetimes})
            return r.get('clean')
        self.call({'op': what, 'h': h, 't': t})
        I.markers[t] = (what == 'mark_clean')
        return None

    def drain(self, h, t, api='rn', budget=1 << 20, limit=100000):
        """consume until the engine reports empty; the model then must be exhausted too"""
        I = self.inst[h]; T = I.topic(t)
        n = 0
        while n < limit:
            got = self.do_read_next(h, t, True) if api == 'rn' else self.do_batch_read(h, t, budget, True)
            if not got:
                break
            n += len(got)
        return n

    # ------------------------------------------------------------------ program execution
    def run(self, prog):
        """prog: {'instances': {h: params}, 'ops': [...]}; returns self (findings, stats, transcript)"""
        try:
            for h, params in prog.get('instances', {}).items():
                h = int(h)
                self.inst[h] = Instance(params)
                self.inst[h].markers_touched_this_life = {}
            for self.opi, op in enumerate(prog['ops']):
                self.step(op)
        except Halt:
            pass
        finally:
            self.close()
        return self

    def step(self, op):
        k = op[0]
        a = op[1] if len(op) > 1 else {}
        h = a.get('h', 1)
        if k == 'open':
            self.do_open(h, a.get('params'))
            self.inst[h].markers_touched_this_life = {}
        elif k == 'drop':
            self.do_drop(h)
        elif k == 'reopen':
            self.reopen(h)
            self.inst[h].markers_touched_this_life = {}
        elif k == 'restart':
            self.restart_process()
            for I in self.inst.values():
                I.markers_touched_this_life = {}
        elif k == 'append':
            self.do_append(h, a['t'], a['tag'], a['len'], a.get('expect', 'ok'))
            self.inst[h].markers_touched_this_life[a['t']] = True
        elif k == 'batch':
            self.do_batch(h, a['t'], [tuple(e) for e in a['entries']], a.get('expect', 'ok'), a.get('rep'))
            self.inst[h].markers_touched_this_life[a['t']] = True
        elif k == 'rn':
            self.do_read_next(h, a['t'], a.get('cp', True))
        elif k == 'br':
            self.do_batch_read(h, a['t'], a['max'], a.get('cp', True), a.get('start'))
        elif k == 'peekpair':
            self.do_peekpair(h, a)
        elif k == 'count':
            self.do_count(h, a['t'])
        elif k == 'counts':
            self.do_counts(h)
        elif k in ('mark_clean', 'mark_dirty', 'is_clean'):
            self.do_marker(h, a['t'], k)
            if k != 'is_clean':
                self.inst[h].markers_touched_this_life[a['t']] = True
        elif k == 'drain':
            self.drain(h, a['t'], a.get('api', 'rn'), a.get('max', 1 << 20))
        elif k == 'raw':
            r = self.call(a['req'])
            self.transcript.append(('raw', a['req'].get('op')))
            if a.get('save'):
                self.stats.setdefault('raw', {})[a['save']] = r
        else:
            raise ValueError('unknown op ' + str(k))

    def do_peekpair(self, h, a):
        """a peek immediately followed by the consuming call with identical arguments"""
        I = self.inst[h]; t = a['t']; T = I.topic(t)
        if a['api'] == 'rn':
            p = self.do_read_next(h, t, False)
            c = self.do_read_next(h, t, True)
        else:
            p = self.do_batch_read(h, t, a['max'], False)
            c = self.do_batch_read(h, t, a['max'], True)
        self.stat('peek_pairs')
        if p is not None and c is not None and [tuple(x) for x in p] != [tuple(x) for x in c]:
            self.finding('peek', 'peek-differs-from-consume', {'topic': t, 'api': a['api'], 'max': a.get('max'),
                                                               'peek_n': len(p), 'consume_n': len(c),
                                                               'peek_first': p[:1], 'consume_first': c[:1]}, **self._ctx(I, T))
