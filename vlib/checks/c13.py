"""C13 Instances with different namespaces are fully isolated.

Two or three live instances in ONE worker process (distinct namespace keys in one data dir and/or distinct data dirs), the
same topic names in each. Part (a): interleaved generated programs, one independent sequential model per instance - any
cross-talk shows up as a divergence of some instance from its own model (streams, counts, markers; entries are
self-identifying, so a foreign entry is classified as such). Part (b): reclamation histories - both instances fill a 1 GiB
segment (colliding per-instance block ids), one consumes all of its own data, the reclaimer runs; every deletion event of
the verif I/O trace is judged against the model of the instance that OWNS the file, each instance's directory listing may
only change through its own files, and afterwards (also after a restart) each instance must still deliver its own data.
"""
import json, os, time
from .. import common
from ..common import Report, Violation, pmap, rng_for, fingerprint, fresh_dir, rmdir
from ..seq import SeqRunner, Instance, Halt, HDR
from ..gen import gen_program
from . import c12

PROFILE = {'topics': 2, 'nops': (25, 70), 'op_w': [5, 2, 5, 1.0, 0.6, 0, 1.2], 'read_w': [4, 3, 0.5, 0.5, 0.3, 0.3, 0],
           'size_w': [6, 2, 0.7, 0.5, 0], 'batch_w': [6, 2, 0.2, 0], 'max_bytes': 50_000_000}

def interleaved(task):
    rng = rng_for(task['seed'], 'C13a', task['idx'])
    n = rng.choice([2, 2, 3])
    base = fresh_dir('c13')
    same_dir = rng.random() < 0.6
    keys = ['alpha', 'beta', 'alpha.2'] if rng.random() < 0.5 else ['k', 'k_', 'K']
    insts = {}
    progs = []
    # a third of the programs configure every instance the way distributed-walrus and octopii do: WALRUS_DATA_DIR in the (process-wide)
    # environment right before a keyed constructor
    via = 'for_key' if task['idx'] % 3 == 2 else 'builder'
    for h in range(1, n + 1):
        params = {'mode': rng.choice(['strict', 'strict', {'alo': 2}]), 'sched': rng.choice(['none', 'sync', 'ms:50']), 'backend': task['backend'], 'via': via,
                  'key': keys[h - 1] if same_dir else rng.choice(['k', keys[h - 1]]), 'dir': base if same_dir else os.path.join(base, 'd%d' % h)}
        os.makedirs(params['dir'], exist_ok=True)
        insts[h] = params
        p = gen_program(rng, PROFILE, params)
        ops = []
        for op in p['ops']:
            a = dict(op[1]) if len(op) > 1 else {}
            a['h'] = h
            if 'tag' in a:
                a['tag'] += h * 1_000_000
            if 'entries' in a:
                a['entries'] = [[e[0] + h * 1_000_000] + list(e[1:]) for e in a['entries']]
            ops.append([op[0], a])
        progs.append(ops)
    # interleave, keeping each instance's own order
    ops = []
    idx = [0] * n
    while any(idx[i] < len(progs[i]) for i in range(n)):
        i = rng.choice([j for j in range(n) if idx[j] < len(progs[j])])
        burst = rng.choice([1, 1, 2, 5])
        ops += progs[i][idx[i]:idx[i] + burst]
        idx[i] += burst
    prog = {'instances': insts, 'ops': ops}
    sr = SeqRunner(task['binary'], timeout=240.0, stop_on=('stream', 'open', 'dead'))
    try:
        sr.run(prog)
    finally:
        rmdir(base)
    st = {k: v for k, v in sr.stats.items() if isinstance(v, int)}
    return {'findings': sr.findings, 'stats': st, 'n': n, 'same_dir': same_dir, 'nops': len(ops),
            'sample': {'instances': {h: {k: v for k, v in p.items() if k != 'dir'} for h, p in insts.items()}, 'same_data_dir': same_dir, 'first_ops': ops[:10]}}

def reclaim_history(task):
    """both instances fill one segment each; B consumes everything of its own, A nothing (or part); reclaimer runs"""
    rng = rng_for(task['seed'], 'C13b', task['idx'])
    base = fresh_dir('c13r')
    out = {'findings': [], 'stats': {}, 'inconclusive': None, 'sample': None}
    def stat(k, n=1):
        out['stats'][k] = out['stats'].get(k, 0) + n
    sr = SeqRunner(task['binary'], timeout=300.0, stop_on=('stream', 'open', 'dead'))
    # three ways of being "different instances": same key under two data dirs / two keys in one data dir / two keys in two data dirs
    variant = task['idx'] % 3
    same_dir = variant == 1
    same_key = variant == 0
    for h, key in ((1, 'A'), (2, 'A' if same_key else 'B')):
        p = {'mode': 'strict', 'sched': 'ms:1', 'backend': task['backend'], 'via': 'builder', 'key': key, 'dir': base if same_dir else os.path.join(base, 'd%d' % h)}
        os.makedirs(p['dir'], exist_ok=True)
        sr.inst[h] = Instance(p)
        sr.inst[h].markers_touched_this_life = {}
    tag = [0]
    def newtag(h):
        tag[0] += 1
        return h * 1_000_000 + tag[0]
    try:
        sr.do_open(1); sr.do_open(2)
        sr.call({'op': 'trace_on', 'on': True})
        # fill: interleaved so that both allocators hand out the same block ids
        for i in range(104):
            for h in (1, 2):
                sr.do_append(h, 'x' if i % 2 else 'y', newtag(h), rng.randint(5_300_000, 5_900_000))
        fmap = {h: c12.entries_by_file(sr, h) for h in (1, 2)}
        if any(v is None for v in fmap.values()):
            out['inconclusive'] = 'layout does not match the model'
            return out
        owner = {f: h for h in (1, 2) for f in fmap[h]}
        # the instance that consumes: the one opened second in even histories (its block ids were registered after the other's), the first in odd ones
        consumer = 2 if (task['idx'] // 3) % 2 == 0 else 1
        other = 3 - consumer
        plan_other = rng.choice([0, 0, 5, 30])
        out['sample'] = {'same_key_different_dirs': same_key, 'consumer_instance': consumer, 'other_instance_consumes': plan_other, 'same_data_dir': same_dir, 'backend': task['backend']}
        for t in ('x', 'y'):
            while sr.do_read_next(consumer, t, True):
                pass
            sr.do_read_next(consumer, t, True)
        for _ in range(plan_other):
            sr.do_read_next(other, 'x', True)
        before = {h: sorted(os.listdir(os.path.join(sr.inst[h].params['dir'], sr.inst[h].params['key']))) for h in (1, 2)}
        r = sr.call({'op': 'wait_reclaim', 'passes': 2, 'timeout_ms': 60000})
        if not r.get('ok'):
            out['inconclusive'] = 'reclaimer made no pass'
            return out
        stat('reclaim_passes_awaited', 2)
        tr = sr.call({'op': 'take_trace'}).get('trace', [])
        removed_events = set()
        for e in tr:
            if e['kind'] in ('deletion_requested', 'remove'):
                f = e['path']
                stat('event:' + e['kind'])
                h = owner.get(f)
                if h is None:
                    stat('deletion_events_unmapped')
                    continue
                unc = [(t, i) for t, i in fmap[h][f] if i >= sr.inst[h].topics[t].consumed]
                if unc:
                    out['findings'].append({'cls': 'deleted-with-unconsumed(%s,%s)' % (e['kind'], 'foreign-instance' if h != consumer else 'own-instance'),
                                            'detail': {'file_owner': h, 'consuming_instance': consumer, 'unconsumed_entries_in_file': len(unc), 'entries_in_file': len(fmap[h][f])}})
                else:
                    stat('legitimate_deletions')
                if e['kind'] == 'remove':
                    removed_events.add(h)
        after = {h: sorted(os.listdir(os.path.join(sr.inst[h].params['dir'], sr.inst[h].params['key']))) for h in (1, 2)}
        removed_from = set(removed_events)
        for h in (1, 2):
            gone = [f for f in before[h] if f not in after[h] and f.isdigit()]
            stat('files_removed', len(gone))
            if gone:
                removed_from.add(h)
        # both instances keep delivering their own data, in-process and after a restart
        for _ in range(3):
            sr.do_read_next(other, 'y', True)
        sr.do_count(other, 'x'); sr.do_count(other, 'y')
        sr.restart_process()
        stat('restarts')
        for h in (1, 2):
            if h in removed_from:
                # what an instance sees after one of its own files was (legitimately) reclaimed and it restarted is C12's subject
                # (known finding KF-C12-positional-cursor-after-reclaim); isolation is judged on the instance whose files were not touched
                stat('restart_checks_skipped_own_file_reclaimed')
                continue
            stat('restart_checks')
            for t in ('x', 'y'):
                sr.do_count(h, t)
                sr.drain(h, t, 'rn')
    except Halt:
        pass
    except Exception as e:
        out['inconclusive'] = 'harness: %r' % e
    finally:
        try:
            sr.close()
        except Exception:
            pass
        rmdir(base)
    for f in sr.findings:
        if f['kind'] == 'dead' and f['cls'] == 'timeout':
            out['inconclusive'] = 'watchdog'
        elif f['kind'] in ('stream', 'progress', 'count', 'open', 'panic', 'error', 'dead'):
            out['findings'].append({'cls': 'after-reclaim:' + f['cls'], 'detail': f['detail']})
    for k, v in sr.stats.items():
        if isinstance(v, int):
            out['stats']['seq:' + k] = v
    return out

def task_fn(t):
    return interleaved(t) if t['part'] == 'a' else reclaim_history(t)

RULE = ('part (a): 2-3 live instances in one process (distinct keys in one data dir, or distinct data dirs; identical topic names), interleaved generated programs '
        '(appends, batches, consuming and peeking reads, counts, clean/dirty markers, in-process reopen of one instance while the others stay live), one sequential '
        'model per instance, entries self-identifying per instance; part (b): both instances fill a 1 GiB segment with interleaved 5.3-5.9 MiB appends (identical '
        'per-instance block ids), one instance consumes all of its own entries, the reclaimer (Milliseconds(1)) runs two passes: every deletion_requested / remove '
        'event is judged against the model of the instance owning the file, then both instances must deliver their own remaining data in-process and after a '
        'process restart. non-trivial = program with >= 2 live instances and consumed entries; distinct = distinct (part, seed, index)')

def run(tier, seed, budget):
    q = tier == 'quick'
    rep = Report('C13', tier, seed, 'exploration')
    rep.rule = RULE
    rep.required = {'programs:a': 20, 'histories:b': 3, 'entries_consumed': 500, 'reopens': 5, 'reclaim_passes_awaited': 4, 'restart_checks': 1}
    rep.assumptions = ['part (b) uses the release build of the worker (1.2 GiB of payload per history)', 'process-global fsync schedule: the first instance opened decides it']
    dbg = common.build('wsrv', 'debug')
    rel = common.build('wsrv', 'release')
    tasks = [{'part': 'b', 'binary': rel, 'seed': seed, 'idx': i, 'backend': ['fd', 'mmap'][i % 2]} for i in range(3 if q else 60)]
    tasks += [{'part': 'a', 'binary': dbg, 'seed': seed, 'idx': i, 'backend': ['fd', 'mmap'][i % 2]} for i in range(40 if q else 3000)]
    if not q:
        # mix the long reclamation histories with the short interleaved programs, so that a budget-limited run covers both parts
        head, rest = tasks[:6], tasks[6:]
        rng_for(seed, 'C13', 'order').shuffle(rest)
        tasks = head + rest
    for t, res in pmap(task_fn, tasks, jobs=12, budget_s=budget):
        if isinstance(res, Exception):
            rep.add_inconclusive(repr(res)); continue
        if res.get('inconclusive'):
            rep.add_inconclusive(res['inconclusive']); continue
        part = t['part']
        st = res['stats']
        if part == 'a':
            rep.add_case(fingerprint(['a', t['idx']]), st.get('entries_consumed', 0) > 0, res['sample'])
            rep.count('programs:a')
            rep.count('instances', res['n'])
            rep.merge_cover(st)
            for f in res['findings']:
                if f['kind'] == 'dead' and f['cls'] == 'timeout':
                    rep.add_inconclusive('watchdog'); continue
                rep.add_violation(Violation('C13', f['cls'], f['detail'], ['part:a'], {'kind': 'c13-interleaved', 'seed': t['seed'], 'idx': t['idx'], 'backend': t['backend'], 'finding': f}))
        else:
            rep.add_case(fingerprint(['b', t['idx']]), True, res['sample'])
            rep.count('histories:b')
            rep.count('histories:b:' + ('same-key-two-dirs' if res['sample'].get('same_key_different_dirs') else 'two-keys'))
            rep.merge_cover({k: v for k, v in st.items() if not k.startswith('seq:')})
            rep.count('entries_consumed', st.get('seq:entries_consumed', 0))
            for f in res['findings']:
                rep.add_violation(Violation('C13', f['cls'], f['detail'], ['part:b'], {'kind': 'c13-reclaim', 'seed': t['seed'], 'idx': t['idx'], 'backend': t['backend'], 'finding': f}))
    return rep.finish()

def replay(path):
    rp = json.load(open(path))
    r = rp['replay']
    part = 'a' if r['kind'] == 'c13-interleaved' else 'b'
    binary = common.build('wsrv', 'debug' if part == 'a' else 'release')
    res = task_fn({'part': part, 'binary': binary, 'seed': r['seed'], 'idx': r['idx'], 'backend': r['backend']})
    fs = res['findings']
    print(json.dumps(fs, indent=1, default=str)[:3000])
    hit = any((f['cls'] == rp['class']) for f in fs)
    print('REPRODUCED' if hit else 'NOT-REPRODUCED')
    return 1 if hit else 0
