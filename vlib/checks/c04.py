"""C04 Rejected or failed appends leave no trace; batches are all-or-nothing."""
from . import seqfam

PROFILE = {'topics': 2, 'nops': (40, 110), 'op_w': [4, 2, 5, 0.5, 0.5, 0.4, 0], 'read_w': [4, 4, 0, 0, 0, 0, 0],
           'size_w': [6, 3, 1, 1, 0], 'max_bytes': 120_000_000, 'reject_w': 1.2, 'fault_w': 3.0,
           'fault_fams': ['completion', 'completion', 'flush', 'alloc']}
KINDS = {'stream', 'error', 'panic', 'dead', 'open', 'count', 'progress'}
RULE = ('generated programs in which appends / batch appends run with one injected failure armed through the verif failpoints '
        '(io_uring completion forced negative or short at entry i, failed submission, failed block write, failed file creation / '
        'set_len / fsync, failed flush) or must be rejected (2001+ entries, topic name too long for the header); the op reply decides '
        'whether the model appends; afterwards and after reopen/restart every read must return exactly the acknowledged entries - an '
        'entry of an op that returned an error is classified failed-op-visible; non-trivial = at least one injected fault actually hit '
        'or one rejection, and entries consumed; distinct = distinct op lists')

def cls_filter(f):
    if f['kind'] == 'error' and not ('must-be-rejected' in f['cls']):
        # an unexpected error of an un-faulted op after a failed one: later successful appends must not be affected
        return 'after-failure:' + f['cls'] if f['ctx'].get('failed_before') else None
    if f['kind'] == 'panic':
        return f['cls'] if (f['ctx'].get('fault') or f['ctx'].get('expect') == 'err' or f['ctx'].get('failed_before')) else None
    return f['cls']

def nontrivial(res):
    st = res['stats']
    return st.get('entries_consumed', 0) > 0 and (st.get('faults_hit', 0) > 0 or st.get('append_err', 0) + st.get('batch_err', 0) > 0)

def trig(f, res):
    t = ['faulthit:' + k.split(':', 1)[1] for k in res['stats'] if k.startswith('fault_hit:')]
    if (f.get('ctx') or {}).get('restarted'):
        t.append('ctx:restarted')     # the finding was observed on an instance that had been reopened at least once
    return t

def run(tier, seed, budget):
    rep = seqfam.run_family('C04', tier, seed, budget, PROFILE, KINDS, n_quick=120, n_thorough=5000, rule=RULE,
                            level='fault_enumeration',
                            required={'faults_hit': 30, 'faulted_op_failed': 15, 'batch_err': 15, 'fault_hit:cqe-neg': 2,
                                      'fault_hit:cqe-short': 2, 'fault_hit:block_write': 2},
                            cls_filter=cls_filter, nontrivial_fn=nontrivial, triggers_of=trig,
                            assumptions=['faults are injected at the verif failpoints (one per operation); kernel-level partial effects of a failed '
                                         'io_uring submission are not modelled'])
    return rep.finish()

def replay(path):
    return seqfam.replay_file(path)
