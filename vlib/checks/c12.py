"""C12 File reclamation never removes entries that are still unconsumed.

Histories that fully allocate one 1 GiB segment (>= 100 block allocations: topics alternate 5.3-6 MiB appends, one entry per
block), with the reclaimer at its fastest schedule (Milliseconds(1)); consumption patterns per topic (nothing, part, exactly
to the end of a block, everything), peeks and repeated empty polls at block boundaries, batch reads, waits for reclaim passes
(awaited through the reclaim-pass counter, never by sleeping), restarts. Oracles:
 (1) event oracle: at every `deletion_requested` / `remove` event of the verif I/O trace for file F, every entry stored in F
     (block -> file from the layout accessor, block -> entries from the model's sizes) has been returned by a consuming read;
 (2) behavioural oracle: the lock-step sequential model keeps holding in the running process and after a restart in a fresh
     process following the deletion (no unconsumed entry skipped or unreadable).
"""
import json, os, time
from .. import common
from ..common import Report, Violation, pmap, rng_for, fingerprint, fresh_dir, rmdir
from ..seq import SeqRunner, Instance, Halt, HDR, BLOCK

def entries_by_file(sr, h):
    """file -> list of (topic, entry index) stored in it, from the layout accessor and the model's entry sizes; None if they disagree"""
    out = {}
    I = sr.inst[h]
    for t, T in I.topics.items():
        lay = sr.call({'op': 'layout', 'h': h, 't': t}).get('blocks') or []
        i = 0
        for bid, f, _off, used, _tail in lay:
            acc = 0
            while i < len(T.log) and acc + HDR + T.log[i][1] <= used:
                out.setdefault(f, []).append((t, i))
                acc += HDR + T.log[i][1]
                i += 1
            if acc != used:
                return None
    return out

def history(task):
    rng = rng_for(task['seed'], 'C12', task['idx'])
    params = {'mode': rng.choice(['strict', 'strict', {'alo': 1}, {'alo': 4}]), 'sched': 'ms:1', 'backend': rng.choice(['fd', 'mmap']), 'via': 'builder', 'key': 'k'}
    early = task['idx'] % 4 == 1
    if early and rng.random() < 0.8:
        params['mode'] = rng.choice(['strict', {'alo': 1}])     # every early read is persisted
    d = fresh_dir('c12')
    params['dir'] = d
    sr = SeqRunner(task['binary'], timeout=240.0, stop_on=('stream', 'open', 'dead'))
    sr.inst[1] = Instance(params)
    sr.inst[1].markers_touched_this_life = {}
    out = {'findings': [], 'stats': {}, 'params': {k: v for k, v in params.items() if k != 'dir'}, 'plan': None, 'inconclusive': None}
    def stat(k, n=1):
        out['stats'][k] = out['stats'].get(k, 0) + n
    tag = [0]
    def newtag():
        tag[0] += 1
        return tag[0]
    deletions = []
    hw = {}     # topic -> highest number of entries ever returned by consuming reads (AtLeastOnce may step back after a restart)
    def drain_trace(files_map, when):
        tr = sr.call({'op': 'take_trace'}).get('trace', [])
        I = sr.inst[1]
        for t, T in I.topics.items():
            hw[t] = max(hw.get(t, 0), T.consumed)
        for e in tr:
            if e['kind'] in ('deletion_requested', 'remove'):
                f = e['path']
                stat('event:' + e['kind'])
                deletions.append((e['kind'], f, when))
                ents = (files_map or {}).get(f)
                if ents is None:
                    stat('deletion_events_unmapped')
                    continue
                unc = [(t, i) for t, i in ents if i >= hw.get(t, 0)]
                if unc:
                    by_t = {}
                    for t, i in unc:
                        by_t[t] = by_t.get(t, 0) + 1
                    out['findings'].append({'cls': 'deleted-with-unconsumed(%s)' % e['kind'], 'detail': {'file': os.path.basename(f), 'unconsumed_entries_in_file': by_t,
                                                                                                         'entries_in_file': len(ents), 'when': when,
                                                                                                         'counters': [e.get('off'), e.get('len')]}})
                else:
                    stat('deletions_of_fully_consumed_files')
    try:
        sr.do_open(1)
        sr.call({'op': 'trace_on', 'on': True})
        topics = ['x', 'y', 'z'][:rng.choice([2, 2, 3])]
        # ---- phase 1: fill until the first segment is fully allocated (>= 100 blocks) and a second one exists
        n = 0
        full_file = None
        if early:
            # consumers that read a little while the topic is young (their persisted position points into the writer's active block) and then
            # fall behind while the writer fills the file
            for t in topics:
                for _ in range(rng.choice([1, 1, 2])):
                    sr.do_append(1, t, newtag(), rng.choice([16, 100, 300]))
                for _ in range(rng.choice([1, 1, 2])):
                    sr.do_read_next(1, t, True)
            stat('plan:early-tail-consumers')
        while n < 130:
            t = topics[n % len(topics)] if rng.random() < 0.8 else rng.choice(topics)
            ln = rng.randint(5_300_000, 6_000_000)
            if rng.random() < 0.15:
                sr.do_batch(1, t, [(newtag(), ln)])
            else:
                sr.do_append(1, t, newtag(), ln)
            n += 1
            if n >= 99 and n % 3 == 0:
                fs = sr.call({'op': 'file_states'}).get('files') or []
                ff = [f for f in fs if f[4]]
                if ff and len(fs) >= 2:
                    full_file = ff[0][0]
                    break
        if not full_file:
            out['inconclusive'] = 'no fully allocated file after %d appends' % n
            return out
        stat('appends', n)
        for t in topics:     # a few small entries so that tails / mid-block positions exist too
            for _ in range(rng.randint(0, 3)):
                sr.do_append(1, t, newtag(), rng.choice([16, 100, 300, 5000]))
        fmap = entries_by_file(sr, 1)
        if fmap is None:
            out['inconclusive'] = 'layout does not match the model'
            return out
        stat('files', len(fmap))
        stat('entries_in_full_file', len(fmap.get(full_file, [])))
        # ---- phase 2: consumption plans
        I = sr.inst[1]
        plan = {}
        in_full = {t: [i for tt, i in fmap.get(full_file, []) if tt == t] for t in topics}
        victim = rng.choice(topics)     # one topic is consumed exactly to the end of its last block in the full file (or beyond)
        for t in topics:
            total = len(I.topics[t].log)
            last_in_full = (max(in_full[t]) + 1) if in_full[t] else 0
            if t == victim:
                k = rng.choice([last_in_full, last_in_full, total, max(last_in_full - 1, 0)])
            else:
                k = rng.choice([0, 0, rng.randint(0, total), last_in_full, max(last_in_full - 1, 0), total])
            plan[t] = k
        legit = rng.random() < 0.4 and not early
        if early:
            for t in topics:
                if rng.random() < 0.9:
                    plan[t] = I.topics[t].consumed      # nothing more is consumed
        if legit:
            # every entry of the full file is consumed and the reader steps past its last block (blocks are marked lazily, when a read
            # moves on): the deletion is legitimate, the interesting part is what follows it
            for t in topics:
                total = len(I.topics[t].log)
                lf = (max(in_full[t]) + 1) if in_full[t] else 0
                plan[t] = max(plan[t], min(total, lf + rng.choice([1, 1, 2])))
            stat('plan:full-file-consumed')
        out['plan'] = {'consume': plan, 'entries': {t: len(I.topics[t].log) for t in topics}, 'in_full_file': {t: len(v) for t, v in in_full.items()}}
        for t in topics:
            k = plan[t]
            while I.topics[t].consumed < k:
                r = rng.random()
                if r < 0.6:
                    sr.do_read_next(1, t, True)
                elif r < 0.8:
                    # (a consuming batch read that spans several blocks leaves the blocks in the middle unmarked for good, so such files are
                    # never reclaimed - a leak, not a C12 matter; the histories that aim at a legitimate deletion read block by block)
                    sr.do_batch_read(1, t, rng.choice([1, 5_000_000] if legit else [1, 6_000_000, 12_000_000, 30_000_000]), True)
                elif r < 0.9:
                    sr.do_read_next(1, t, False)
                else:
                    sr.do_batch_read(1, t, rng.choice([0, 1, 1 << 30]), False)
                    stat('peeks')
                if I.topics[t].consumed > k:
                    break
            # polls exactly at the position reached: peeks and (if everything was consumed) repeated empty polls
            for _ in range(rng.choice([0, 3, 60])):
                if rng.random() < 0.5:
                    sr.do_read_next(1, t, False)
                else:
                    sr.do_batch_read(1, t, rng.choice([0, 1, 1 << 20]), False)
                stat('boundary_peeks')
            if I.topics[t].remaining == 0:
                for _ in range(rng.choice([1, 2, 40]) if legit else rng.choice([0, 2, 40])):
                    sr.do_read_next(1, t, True)
                    stat('empty_polls')
        drain_trace(fmap, 'after-consumption')
        # ---- phase 3: let the reclaimer run (two full passes), judging every deletion event
        r = sr.call({'op': 'wait_reclaim', 'passes': 2, 'timeout_ms': 60000})
        if not r.get('ok'):
            out['inconclusive'] = 'reclaimer made no pass within the watchdog'
            return out
        stat('reclaim_passes_awaited', 2)
        drain_trace(fmap, 'after-reclaim-passes')
        gone = [f for f in fmap if not os.path.exists(f)]
        stat('files_removed', len(gone))
        # ---- phase 4: the running process keeps working ...
        for t in topics:
            for _ in range(rng.randint(0, 2) if not early else 0):      # (the early consumers stay where they were)
                sr.do_read_next(1, t, True)
            if rng.random() < 0.5:
                sr.do_append(1, t, newtag(), rng.choice([100, 5_500_000]))
            sr.do_count(1, t)
        # ... and a fresh process after the (possible) deletion must still deliver every unconsumed entry
        kind = rng.choice(['restart', 'restart', 'reopen', 'reopen'] + (['reopen'] * 8 if early else []))
        drain_trace(fmap, 'before-' + kind)
        if kind == 'restart':
            sr.restart_process()
            sr.call({'op': 'trace_on', 'on': True})
        else:
            sr.reopen(1)
        stat(kind)
        if gone:
            stat('deleted_then_restarted')
        elif early or rng.random() < 0.75:
            # the new lifetime idles (peeks, polls of drained topics) while the reclaimer makes two passes over the recovered state: recovery
            # re-registers every block and rebuilds the per-file counters (in the same process for a reopen, where the trackers outlive the
            # instance); nothing has been consumed since, so no file holding an unconsumed entry may go
            fmap2 = entries_by_file(sr, 1)
            if fmap2 is not None:
                for t in topics:
                    for _ in range(rng.choice([0, 2, 10])):
                        if I.topics[t].remaining == 0 and I.strict:
                            sr.do_read_next(1, t, True)
                        else:
                            sr.do_batch_read(1, t, rng.choice([0, 1, 1 << 20]), False)
                r = sr.call({'op': 'wait_reclaim', 'passes': 2, 'timeout_ms': 60000})
                if not r.get('ok'):
                    out['inconclusive'] = 'reclaimer made no pass within the watchdog (after %s)' % kind
                    return out
                stat('reclaim_passes_awaited', 2)
                stat('idle_after_' + kind)
                drain_trace(fmap2, 'idle-after-' + kind)
                gone2 = [f for f in fmap2 if not os.path.exists(f)]
                stat('files_removed_after_' + kind, len(gone2))
                if gone2:
                    # what was unlinked is still mapped in this process: judge delivery from a fresh one
                    sr.restart_process()
                    sr.call({'op': 'trace_on', 'on': True})
                    stat('restart_after_idle_deletion')
        for t in topics:
            if I.strict:
                sr.do_count(1, t)
            sr.drain(1, t, rng.choice(['rn', 'br']), 1 << 30)
            sr.do_read_next(1, t, True)
    except Halt:
        pass
    except Exception as e:
        out['inconclusive'] = 'harness: %r' % e
    finally:
        try:
            sr.close()
        except Exception:
            pass
        rmdir(d)
    for f in sr.findings:
        if f['kind'] == 'dead' and f['cls'] == 'timeout':
            out['inconclusive'] = 'watchdog'
            continue
        if f['kind'] in ('stream', 'progress', 'count', 'open', 'panic', 'error', 'dead'):
            cls = f['cls']
            removed = len([d for d in deletions if d[0] == 'remove'])
            after_restart = sr.inst[1].lifetimes > 1 and (f['ctx'] or {}).get('restarted', f['kind'] in ('count', 'progress'))
            if f['kind'] in ('stream', 'progress', 'count') and after_restart:
                # one class for "what the consumer sees after a restart is not the unconsumed remainder"; the observed symptom stays in the detail
                cls = 'unconsumed-not-delivered-after-restart'
                f['detail'] = {'symptom': f['cls'], **(f['detail'] if isinstance(f['detail'], dict) else {'detail': f['detail']})}
            out['findings'].append({'cls': cls, 'detail': f['detail'], 'files_removed_before': removed})
    for k, v in sr.stats.items():
        if isinstance(v, int):
            out['stats']['seq:' + k] = v
    out['deletions'] = [(k, os.path.basename(f), w) for k, f, w in deletions]
    return out

RULE = ('each history fills a 1 GiB segment completely (>= 100 blocks; 2-3 topics alternating 5.3-6 MiB appends, one entry per block) with FsyncSchedule::Milliseconds(1), '
        'then consumes per topic according to a drawn plan (a quarter of the histories let every consumer read one or two entries while its topic is young and mostly nothing afterwards; otherwise nothing / part / exactly to the end of the topic\'s last block in the full file / everything; one third of the '
        'histories consume the whole file so that a legitimate deletion happens), mixes read_next, batch reads, peeks, up to 60 polls at the reached position and up to 40 '
        'empty polls, waits for two reclaim passes through the reclaim-pass counter, continues in the running process and finally restarts (fresh process) or reopens '
        '(same process: the global trackers survive), in three quarters of the histories idles through two more reclaim passes in the new lifetime, and drains every topic. Oracle 1 (events): at every deletion_requested / remove event every entry stored in that file had been returned by a consuming read (entry -> '
        'file through the layout accessor). Oracle 2: lock-step sequential model before and after the restart (StrictlyAtOnce: exact continuation and counts; AtLeastOnce: no '
        'skip). non-trivial = file fully allocated and reclaim passes awaited; distinct = distinct (seed, index)')

def run(tier, seed, budget):
    q = tier == 'quick'
    rep = Report('C12', tier, seed, 'exploration')
    rep.rule = RULE
    rep.required = {'histories': 6, 'reclaim_passes_awaited': 12, 'event:deletion_requested': 1, 'files_removed': 1, 'deleted_then_restarted': 1}
    rep.assumptions = ['AtLeastOnce histories judge deletion events against consumed (not persisted) positions, i.e. more leniently than the statement',
                       'one instance per process (C13 covers several instances)', 'release build of the worker (no debug assertions / overflow checks)']
    binary = common.build('wsrv', 'release')   # 0.6 GiB of payload per history: checksums in a debug build cost minutes
    tasks = [{'binary': binary, 'seed': seed, 'idx': i} for i in range(10 if q else 200)]
    for t, res in pmap(history, tasks, jobs=10, budget_s=budget):
        if isinstance(res, Exception):
            rep.add_inconclusive(repr(res)); continue
        if res['inconclusive']:
            rep.add_inconclusive(res['inconclusive'])
            continue
        rep.add_case(fingerprint([t['seed'], t['idx']]), True, {'params': res['params'], 'plan': res['plan'], 'deletion_events': res.get('deletions', [])[:6]})
        rep.count('histories')
        rep.merge_cover(res['stats'])
        rep.count('cfg:' + json.dumps(res['params']['mode']) + '/' + res['params']['backend'])
        for f in res['findings']:
            trig = ['mode:' + ('strict' if res['params']['mode'] == 'strict' else 'alo')]
            if f.get('files_removed_before'):
                trig.append('after-file-removal')
            rep.add_violation(Violation('C12', f['cls'], f['detail'], trig, {'kind': 'c12-history', 'seed': t['seed'], 'idx': t['idx'], 'params': res['params'], 'plan': res['plan'], 'finding': f}))
    return rep.finish()

def replay(path):
    rp = json.load(open(path))
    r = rp['replay']
    binary = common.build('wsrv', 'release')
    res = history({'binary': binary, 'seed': r['seed'], 'idx': r['idx']})
    print(json.dumps({k: res[k] for k in ('findings', 'plan', 'inconclusive', 'deletions')}, indent=1, default=str)[:4000])
    hit = any(f['cls'] == rp['class'] for f in res['findings'])
    print('REPRODUCED' if hit else 'NOT-REPRODUCED')
    return 1 if hit else 0
