"""C17 Topic clean/dirty markers reflect the latest change, across restarts."""
from . import seqfam

PROFILE = {'topics': 3, 'nops': (30, 90), 'op_w': [3, 1, 1, 0, 1.5, 1.0, 7], 'read_w': [4, 3, 0, 0, 0, 0, 0],
           'size_w': [9, 1, 0, 0, 0], 'max_bytes': 30_000_000}
KINDS = {'marker'}
RULE = ('generated histories of appends, batch appends, mark_topic_clean, mark_topic_dirty, topic_is_clean, in-process reopen and '
        'process restart immediately after the last call; expected state per topic: dirty after an append, else the last mark; '
        'non-trivial = >= 1 reopen and >= 3 marker probes; distinct = distinct op lists')

def run(tier, seed, budget):
    rep = seqfam.run_family('C17', tier, seed, budget, PROFILE, KINDS, n_quick=150, n_thorough=5000, rule=RULE,
                            required={'marker_checks': 300, 'reopens': 100},
                            nontrivial_fn=lambda res: res['stats'].get('reopens', 0) >= 1 and res['stats'].get('marker_checks', 0) >= 3)
    return rep.finish()

def replay(path):
    return seqfam.replay_file(path, stop_on=('dead',))
