"""C17 Topic clean/dirty markers reflect the latest change, across restarts.
Part (a): generated single-threaded histories vs. a last-writer model. Part (b): 2-4 real threads racing mark_clean / mark_dirty /
append on one topic (free-running, seeded yields), then quiescence: the in-memory state must equal the effect of an operation that
can be last in some linearisation of the recorded call/return history, and the state after an immediate reopen must equal it."""
import json, time
from .. import common
from ..common import Violation, rng_for, fingerprint, fresh_dir, rmdir, pmap
from ..wsrv import Wsrv, Dead
from . import seqfam

PROFILE = {'topics': 3, 'nops': (30, 90), 'op_w': [3, 1, 1, 0, 1.5, 1.0, 7], 'read_w': [4, 3, 0, 0, 0, 0, 0],
           'size_w': [9, 1, 0, 0, 0], 'max_bytes': 30_000_000}
KINDS = {'marker'}
RULE = ('(a) generated histories of appends, batch appends, mark_topic_clean, mark_topic_dirty, topic_is_clean, in-process reopen and '
        'process restart immediately after the last call; expected state per topic: dirty after an append, else the last mark; '
        '(b) concurrent histories: 2-4 real threads with 1-4 operations each (mark_clean / mark_dirty / append) racing on one topic, recorded '
        'with call/return stamps at the API boundary; after the threads join, topic_is_clean must equal the effect of some operation that is '
        'not followed (return before call) by any other operation, and after drop + reopen (same or fresh process) the reported state must equal '
        'the in-memory state observed at quiescence; non-trivial = >= 1 reopen and >= 3 marker probes (a) / >= 2 threads with conflicting effects (b); '
        'distinct = distinct op lists')

def concurrent_worker(task):
    rng = rng_for(task['seed'], 'C17b', task['idx'])
    d = fresh_dir('c17')
    out = {'cases': [], 'inconclusive': []}
    w = Wsrv(task['binary'], timeout=60)
    params = {'mode': rng.choice(['strict', {'alo': 2}]), 'sched': rng.choice(['none', 'sync']), 'backend': rng.choice(['fd', 'mmap'])}
    def open_():
        return w.send({'op': 'open', 'h': 1, 'dir': d, 'key': 'k', 'via': 'builder', **params})
    try:
        if not open_().get('ok'):
            out['inconclusive'].append('open failed')
            return out
        tag = 0
        for ci in range(task['n']):
            topic = 'm%d' % ci
            # random known start state
            start = rng.choice(['clean', 'dirty', 'fresh'])
            if start != 'fresh':
                w.send({'op': 'mark_' + start, 'h': 1, 't': topic})
            threads = []
            for _ in range(rng.randint(2, 4)):
                ops = []
                for _ in range(rng.randint(1, 4)):
                    k = rng.choice(['mark_clean', 'mark_dirty', 'mark_clean', 'append'])
                    if k == 'append':
                        tag += 1
                        ops.append({'op': 'append', 'h': 1, 't': topic, 'tag': tag, 'len': rng.choice([16, 100])})
                    else:
                        ops.append({'op': k, 'h': 1, 't': topic})
                threads.append(ops)
            r = w.send({'op': 'run_concurrent', 'threads': threads, 'sched': {'mode': 'free', 'seed': rng.getrandbits(32) | 1}}, timeout=60)
            if not r.get('ok'):
                out['inconclusive'].append('run_concurrent: %r' % r)
                continue
            hist = []
            for ops, hs in zip(threads, r['hist']):
                for op, h in zip(ops, hs):
                    if h['res'].get('ok'):
                        hist.append((h['call'], h['ret'], 'clean' if op['op'] == 'mark_clean' else 'dirty', op['op']))
            st = w.send({'op': 'is_clean', 'h': 1, 't': topic}).get('clean')
            possible_last = [e for e in hist if not any(o[0] > e[1] for o in hist)]
            allowed = {e[2] == 'clean' for e in possible_last}
            finding = None
            if st not in allowed:
                finding = {'cls': 'state-differs-from-every-linearisation', 'detail': {'reported_clean': st, 'possible_last_ops': [e[3] for e in possible_last],
                                                                                       'history': sorted(hist)[:16]}}
            # immediate reopen (no sleep): the persisted state must be the state just observed
            kind = rng.choice(['reopen', 'reopen', 'restart'])
            w.send({'op': 'drop', 'h': 1})
            if kind == 'restart':
                w.close()
                w = Wsrv(task['binary'], timeout=60)
            if not open_().get('ok'):
                out['inconclusive'].append('reopen failed')
                break
            st2 = w.send({'op': 'is_clean', 'h': 1, 't': topic}).get('clean')
            if finding is None and st2 != st:
                finding = {'cls': 'state-lost-on-reopen(concurrent)', 'detail': {'in_memory_at_quiescence': st, 'after_' + kind: st2, 'history': sorted(hist)[:16]}}
            conflicting = len({e[2] for e in hist}) > 1
            out['cases'].append({'fp': fingerprint([task['idx'], ci]), 'nontrivial': conflicting, 'finding': finding,
                                 'sample': {'params': params, 'threads': [[o['op'] for o in t] for t in threads], 'start': start, 'reopen': kind},
                                 'replay': {'seed': task['seed'], 'idx': task['idx'], 'case': ci} if finding else None})
    except Dead as e:
        out['inconclusive'].append('worker died: %s' % e)
    finally:
        w.close()
        rmdir(d)
    return out

def run(tier, seed, budget):
    q = tier == 'quick'
    rep = seqfam.run_family('C17', tier, seed, budget, PROFILE, KINDS, n_quick=120, n_thorough=5000, rule=RULE,
                            required={'marker_checks': 300, 'reopens': 100, 'concurrent_histories': 100, 'concurrent_histories_conflicting': 50},
                            nontrivial_fn=lambda res: res['stats'].get('reopens', 0) >= 1 and res['stats'].get('marker_checks', 0) >= 3)
    binary = common.build('wsrv', 'debug')
    tasks = [{'binary': binary, 'seed': seed, 'idx': i, 'n': 20 if q else 200} for i in range(16 if q else 32)]
    for t, res in pmap(concurrent_worker, tasks, budget_s=budget):
        if isinstance(res, Exception):
            rep.add_inconclusive(repr(res)); continue
        for m in res['inconclusive']:
            rep.add_inconclusive(m)
        for c in res['cases']:
            rep.add_case(c['fp'], c['nontrivial'], c['sample'])
            rep.count('concurrent_histories')
            if c['nontrivial']:
                rep.count('concurrent_histories_conflicting')
            if c['finding']:
                rep.add_violation(Violation('C17', c['finding']['cls'], c['finding']['detail'], ['part:b'], {'kind': 'c17-concurrent', **c['replay']}))
    return rep.finish()

def replay(path):
    rp = json.load(open(path))
    if rp['replay'].get('kind') == 'c17-concurrent':
        r = rp['replay']
        binary = common.build('wsrv', 'debug')
        hit = False
        for _ in range(5):
            res = concurrent_worker({'binary': binary, 'seed': r['seed'], 'idx': r['idx'], 'n': r['case'] + 1})
            c = res['cases'][r['case']] if len(res['cases']) > r['case'] else None
            if c and c['finding'] and c['finding']['cls'] == rp['class']:
                hit = True
                break
        print('REPRODUCED' if hit else 'NOT-REPRODUCED')
        return 1 if hit else 0
    return seqfam.replay_file(path, stop_on=('dead',))
