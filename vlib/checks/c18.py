"""C18 Cluster metadata keeps an immutable, contiguous segment history (real distributed-walrus/src/metadata.rs)."""
import json
from .. import common, dw
from ..common import Report, Violation, pmap

def task(t):
    return dw.run_mode(t['binary'], ['meta', t['depth'], t['nrandom'], t['seed'], t.get('max_states', 400000)])

RULE = ('breadth-first exploration of ALL command sequences up to depth D (D=4 quick, 5 thorough) over an alphabet of 39 symbols: CreateTopic{a,b}x{1,2,3}, '
        'RolloverTopic{a,b,zz(unknown)}x{1,2,3}x{0,3,2^64-1}, UpsertNode x2, four undecodable byte strings; states are pruned by canonical (order-independent) '
        'state, every transition of every distinct state is executed on a state machine rebuilt by replaying the path; plus seeded random sequences '
        '(50-5000 commands, 7 topic names, arbitrary u64 counts, random and mutated byte strings). Oracle per transition: no panic (catch_unwind), state still '
        'readable, segments numbered 1..current with one leader each, open-segment leader == topic leader, sealed = 1..current-1, sealed counts/leaders '
        'unchanged w.r.t. the state before, the leader recorded for ANY segment (also the open one) unchanged w.r.t. the state before, cumulative offset == sum of sealed counts (u128), rejected commands leave the state unchanged. '
        'non-trivial = transition from a reachable state; distinct = distinct canonical states')

def run(tier, seed, budget, prop='C18'):
    q = tier == 'quick'
    rep = Report(prop, tier, seed, 'exploration')
    rep.rule = RULE if prop == 'C18' else RULE_C20
    rep.assumptions = [dw.STANDINS[1], 'metadata.rs is compiled unchanged into harness/dw; states are compared as decoded structures, never as snapshot bytes']
    binary = dw.build()
    tasks = [{'binary': binary, 'depth': 4 if q else 5, 'nrandom': 100 if q else 500, 'seed': seed * 100 + 1, 'main': True}]
    tasks += [{'binary': binary, 'depth': 2, 'nrandom': 400 if q else 3000, 'seed': seed * 100 + 2 + i} for i in range(6 if q else 15)]
    exhaustive = False
    states = 0
    for t, res in pmap(task, tasks, budget_s=budget):
        if isinstance(res, Exception):
            rep.add_inconclusive(repr(res)); continue
        rep.evaluations += res['transitions']
        for k in ('transitions', 'rejected_commands', 'random_commands', 'random_byte_strings', 'random_sequences', 'snapshots_checked'):
            rep.count(k, res[k])
        if t.get('main'):
            exhaustive = res['exhaustive']
            states = res['distinct_states']
            rep.extra['states_per_level'] = res['states_per_level']
            rep.extra['exhaustive_depth'] = res['depth']
            rep.count('distinct_states', res['distinct_states'])
            for s in res['samples']:
                rep.samples.append({'reached_by': s})
        key, cnt = ('violation_samples', 'violations') if prop == 'C18' else ('c20_violation_samples', 'c20_violations')
        for v in res[key]:
            rep.add_violation(Violation(prop, v['cls'], v, [], {'kind': 'meta', 'args': ['meta', t['depth'], t['nrandom'], t['seed']], 'case': v}))
        if res[cnt] > len(res[key]):
            rep.count('violations_not_sampled', res[cnt] - len(res[key]))
    rep.distinct_measured = states
    rep.required = {'transitions': 50000, 'distinct_states': 3000, 'random_byte_strings': 1000}
    return rep.finish(exhaustive=exhaustive)

RULE_C20 = ('part 1 (Metadata snapshot/restore, real metadata.rs): for every distinct state reached by the C18 exploration (all command sequences up to depth D) and the end '
            'state of every random sequence: restore(snapshot()) into a fresh state machine must reproduce the state exactly (canonical decoded comparison, '
            'per-topic getters, node address book) and both copies must stay equal under a common 7-command suffix; the same snapshot installed into lagging replicas (the states after every proper prefix '
            'of the sender\'s history; up to 6 intermediate states of a random sequence) must leave them in the sender\'s state as well. Part 2 (Raft state-machine adapter '
            'build_snapshot/install_snapshot in octopii/src/openraft/storage.rs) is checked by the octopii harness part of this check when it is available. '
            'non-trivial = distinct reachable state')

def replay(path):
    rp = json.load(open(path))
    print(json.dumps(rp['replay'], indent=1))
    binary = dw.build()
    a = rp['replay']['args']
    res = dw.run_mode(binary, a)
    hit = res['violations'] > 0
    print('violations now:', res['violations'], res['violation_samples'][:2])
    print('REPRODUCED' if hit else 'NOT-REPRODUCED')
    return 1 if hit else 0
