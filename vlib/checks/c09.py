"""C09 Consumer positions survive crashes with the promised delivery guarantee."""
from . import crashfam

PROFILE = {'topics': 2, 'nops': (16, 40), 'op_w': [4.5, 1.2, 7, 0.3, 0, 0.1, 0.4], 'read_w': [5, 2, 0.3, 0.2, 0.3, 0.2, 0],
           'size_w': [6, 1.5, 1.2, 0.6, 0], 'batch_w': [6, 2, 0, 0], 'max_bytes': 60_000_000, 'no_final': True, 'rn_only_p': 0.55, 'topics_choices': [1, 1, 2]}
RULE = ('read-dominated workloads (read_next and batch reads at sealed and tail positions, rotations, optional earlier clean restart so that '
        'recovery-assigned block ids are in play) crashed before every numbered I/O event (cursor-index tmp-write / fsync / rename / '
        'dir-fsync, block writes, ...); the directory as left is reopened by a fresh process and each topic drained: StrictlyAtOnce - the '
        'recovered stream must start exactly after the last entry whose consuming read had returned (the in-flight read may go either '
        'way); AtLeastOnce - it must start at or before that position (never skip), and for consumers that only used read_next at most '
        'persist_every entries are redelivered. non-trivial = crash reached with >= 1 acknowledged entry')

def run(tier, seed, budget):
    q = tier == 'quick'
    rep = crashfam.run_family('C09', tier, seed, budget, PROFILE, n_workloads=10 if q else 150, max_points=50 if q else 400,
                              batch_subsets=3 if q else 8, rule=RULE,
                              param_spec={'modes': ['strict', 'strict', {'alo': 1}, {'alo': 2}, {'alo': 2}, {'alo': 3}, {'alo': 4}]},
                              required={'crash_points': 200, 'crash_points_with_consumed_entries': 120, 'in_flight_op:read_next': 30,
                                        'crash_at_event:rename': 20, 'crash_at_event:tmp_write': 20},
                              assumptions=['process-crash model (see C07)', 'AtLeastOnce redelivery bound is checked only for topics whose consumer used read_next exclusively'],
                              profiles=('debug',) if q else ('debug', 'release'))
    return rep.finish()

def replay(path):
    return crashfam.replay_file(path)
