"""C23 A segment is never written after the node holding it applied its sealing (event-log oracle over the C22 executions)."""
from . import c22

def run(tier, seed, budget):
    return c22.run(tier, seed, budget, prop='C23')

def replay(path):
    return c22.replay(path, prop='C23')
