"""C03 Batch reads honour the entry cap and byte budget and always make progress.
Monitor: every batch read result (consuming, peeking, offset-addressed) is checked for <= 2000 entries, payload sum <= budget
unless exactly one entry, and non-empty whenever the model holds an unconsumed entry for the cursor."""
from . import seqfam
from ..seq import BLOCK

PROFILE = {'topics': 2, 'nops': (50, 150), 'op_w': [4, 3, 7, 0.2, 0.12, 0.08, 0], 'read_w': [1, 6, 0, 1.5, 0, 1, 0.5],
           'size_w': [6, 3, 1, 1, 0.35], 'batch_w': [5, 3, 1.5, 0.6], 'max_bytes': 160_000_000, 'aimed_budget': 0.5,
           # the closing drain is a batch-read loop more often than elsewhere, with budgets around one block (entries larger than a block
           # live in multi-unit blocks: a budget of one block covers less than such an entry)
           'drain_api': ['rn', 'br', 'br'], 'drain_max': [1 << 20, 1 << 30, 4096, BLOCK, BLOCK + 4096, 2 * BLOCK]}
KINDS = {'cap', 'budget', 'progress', 'panic', 'dead'}
RULE = ('generated programs dominated by batch_read_for_topic with budgets from {0,1,100,255..257,..,2^63-1,2^64-1} and budgets aimed at '
        'payload/raw sums of the next k pending entries +-1; entry sizes around 128/256 bytes, block capacity, multi-unit entries (> 10 MiB) and cap-sized (2000) batches; a few reopens / restarts; '
        'each batch read result checked for cap, budget and progress against the model cursor; non-trivial = consumed entries and a topic '
        'with >= 2 blocks; distinct = distinct op lists')

def cls_filter(f):
    if f['kind'] == 'panic' and 'batch_read' not in f['cls']:
        return None
    if f['kind'] == 'dead':
        req = (f.get('ctx') or {}).get('req') or {}
        return f['cls'] if req.get('op') == 'batch_read' else None
    return f['cls']

def run(tier, seed, budget):
    rep = seqfam.run_family('C03', tier, seed, budget, PROFILE, KINDS, n_quick=100, n_thorough=4000, rule=RULE,
                            required={'br_nonempty': 50, 'br_multi': 10, 'br_peek': 5}, cls_filter=cls_filter,
                            profiles=('debug', 'release'),
                            assumptions=['payload size of a returned entry is its data length (headers are not counted against the budget)'])
    return rep.finish()

def replay(path):
    return seqfam.replay_file(path, stop_on=('dead',))
