"""C15 Topic entry counts equal appended minus consumed entries (quiescent points, restarts in StrictlyAtOnce)."""
from . import seqfam

PROFILE = {'topics': 3, 'nops': (50, 140), 'op_w': [5, 2, 5, 3, 0.5, 0.4, 0], 'read_w': [4, 3, 1, 1, 0, 0, 0.5],
           'size_w': [6, 3, 1, 1, 0], 'max_bytes': 100_000_000}
KINDS = {'count'}
RULE = ('generated programs over 3 topics with topic_entry_count / topic_entry_counts probes after every few operations, peeks, '
        'offset-addressed reads, in-process reopen and process restart; in AtLeastOnce mode counts are compared only within a '
        'lifetime; non-trivial = consumed entries, >= 2 blocks on a topic and >= 3 count probes; distinct = distinct op lists')

def run(tier, seed, budget):
    rep = seqfam.run_family('C15', tier, seed, budget, PROFILE, KINDS, n_quick=100, n_thorough=4000, rule=RULE,
                            required={'count_checks': 200, 'reopens': 5},
                            extra_nontrivial=lambda res: res['stats'].get('count_checks', 0) >= 3,
                            assumptions=['counts are compared at quiescent points only (single client thread)'])
    return rep.finish()

def replay(path):
    return seqfam.replay_file(path, stop_on=('dead',))
