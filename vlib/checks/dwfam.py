"""Shared executor of C22 / C23: concurrent PUT/GET clients against the full stack (harness/dw `serve`), free-running threads with
seeded delays at the verif delay points, follower apply lag, lease loop and monitor running; returns the client history
(call/return stamps from one monotonic clock at the client boundary) and the harness event log."""
import json, threading, time
from .. import common, dw
from ..common import rng_for, fresh_dir, rmdir, fingerprint

def run_execution(binary, seed, idx):
    rng = rng_for(seed, 'dwexec', idx)
    nodes = rng.choice([1, 1, 2, 3])
    cfg = {'nodes': nodes, 'threshold': rng.choice([1, 2, 2, 3, 4]), 'delay_seed': rng.getrandbits(40) | 1 if rng.random() < 0.8 else 0,
           'lag_us': rng.choice([0, 200, 2000, 20000]), 'backend': rng.choice(['fd', 'mmap']), 'producers': rng.randint(1, 3), 'consumers': rng.randint(0, 2),
           'puts': rng.randint(6, 30), 'monitor_ms': rng.choice([10, 50, 1000]), 'monitor': rng.random() < 0.5}
    fam = rng.random()
    if fam < 0.2:
        cfg['threshold'] = 1000000          # no rollover: every configuration is fully armed
    elif fam < 0.55:
        # the only rollover family without a second writer / sealing proposer / lagging follower: fully armed
        # (longer, with a consumer and low thresholds: every rollover is a chance for a GET to meet the sealing PUT)
        cfg.update(nodes=1, producers=1, monitor=False, consumers=max(1, cfg['consumers']), puts=cfg['puts'] * 3, threshold=min(cfg['threshold'], 3))
        nodes = 1
        # half of them without the 100 ms lease loop: every lease refresh then happens inside a call (forward_append, ensure_topic)
        cfg['lease_loop'] = rng.random() < 0.5
    d = fresh_dir('dwx')
    out = {'cfg': cfg, 'hist': [], 'events': [], 'nodes': None, 'error': None}
    try:
        cl = dw.Cluster(binary, d, nodes=nodes, threshold=cfg['threshold'], delay_seed=cfg['delay_seed'], lag_us=cfg['lag_us'], backend=cfg['backend'],
                        monitor_ms=cfg['monitor_ms'], monitor=cfg['monitor'], lease_loop=cfg.get('lease_loop', True))
    except Exception as e:
        out['error'] = 'cluster start: %r' % e
        rmdir(d)
        return out
    try:
        out['nodes'] = cl.info['nodes']
        topic = 'q%d' % idx
        c0 = cl.client(0)
        r = c0.cmd('REGISTER ' + topic)
        if r != 'OK':
            out['error'] = 'REGISTER: %r' % r
            return out
        cl.ctl('sync')
        hist = []
        lock = threading.Lock()
        def producer(p, node, n):
            c = cl.client(node)
            for i in range(n):
                msg = 'p%d-%d' % (p, i)
                t0 = time.monotonic_ns()
                r = c.cmd('PUT %s %s' % (topic, msg))
                t1 = time.monotonic_ns()
                with lock:
                    hist.append({'th': 'p%d' % p, 'op': 'PUT', 'msg': msg, 'call': t0, 'ret': t1, 'res': r, 'node': node + 1})
                if r is None:
                    break
            c.close()
        def consumer(k, node, n):
            c = cl.client(node)
            for i in range(n):
                t0 = time.monotonic_ns()
                r = c.cmd('GET ' + topic)
                t1 = time.monotonic_ns()
                with lock:
                    hist.append({'th': 'c%d' % k, 'op': 'GET', 'call': t0, 'ret': t1, 'res': r, 'node': node + 1})
                if r is None:
                    break
            c.close()
        ths = []
        for p in range(cfg['producers']):
            ths.append(threading.Thread(target=producer, args=(p, rng.randrange(nodes), cfg['puts'])))
        for k in range(cfg['consumers']):
            ths.append(threading.Thread(target=consumer, args=(k, rng.randrange(nodes), rng.randint(3, cfg['puts'] * 2))))
        for t in ths:
            t.start()
        for t in ths:
            t.join(timeout=120)
        if any(t.is_alive() for t in ths):
            out['error'] = 'client threads did not finish (watchdog)'
            return out
        # quiescence, then a single sequential consumer drains
        cl.ctl('sync')
        time.sleep(0.05)
        cl.ctl('sync')
        dnode = rng.randrange(nodes)
        c = cl.client(dnode)
        empties = 0
        n = 0
        while empties < 3 and n < 2000:
            t0 = time.monotonic_ns()
            r = c.cmd('GET ' + topic)
            t1 = time.monotonic_ns()
            hist.append({'th': 'drain', 'op': 'GET', 'call': t0, 'ret': t1, 'res': r, 'node': dnode + 1})
            n += 1
            if r is None:
                break
            if r == 'EMPTY':
                empties += 1
                cl.ctl('sync')
            elif r.startswith('OK '):
                empties = 0
            else:
                empties += 1
        c.close()
        st = c0.cmd('STATE ' + topic)
        out['state'] = st
        c0.close()
        out['events'] = cl.ctl('events').get('events', [])
        out['hist'] = hist
        out['topic'] = topic
        # last of all (an accepted probe write would pollute the segment): fencing probe at the quiescent point. Only segments sealed
        # before the quiescent period began are probed (the monitor may still seal the open segment once after the clients stopped)
        cl.ctl('sync')
        out['fence'] = cl.ctl('fence_probe', topic=topic, min_age=2 if cfg['monitor'] else 1).get('probes', [])
        if nodes == 1 and not cfg['monitor'] and not cfg.get('lease_loop', True) and cfg['threshold'] < 1000:
            # no refresher but the calls themselves: seal the open segment now and probe its key right away
            out['fence_fresh'] = cl.ctl('fence_probe_fresh', topic=topic, max_appends=cfg['threshold'] + 2).get('probe')
        return out
    except Exception as e:
        out['error'] = 'execution: %r' % e
        return out
    finally:
        cl.close()
        rmdir(d)

def check_clients(ex):
    """C22 oracle over the client history"""
    F = []
    H = ex['hist']
    acked = {}
    for h in H:
        if h['op'] == 'PUT' and h['res'] == 'OK':
            acked[h['msg']] = h
    deliv = {}
    for h in H:
        if h['op'] == 'GET' and h['res'] and h['res'].startswith('OK '):
            deliv.setdefault(h['res'][3:], []).append(h)
    for m, a in acked.items():
        n = len(deliv.get(m, []))
        if n == 0:
            F.append({'cls': 'acked-put-lost', 'detail': {'msg': m, 'acked_by_node': a['node']}})
        elif n > 1:
            F.append({'cls': 'duplicate-get', 'detail': {'msg': m, 'times': n, 'readers': sorted({d['th'] for d in deliv[m]})}})
    puts = {h['msg']: h for h in H if h['op'] == 'PUT'}
    for m in deliv:
        if m not in puts:
            F.append({'cls': 'invented-payload', 'detail': {'msg': m}})
        elif m not in acked and puts[m]['res'] is not None and puts[m]['res'].startswith('ERR'):
            # a PUT answered with an error may or may not have taken effect (the error can come after the append); not judged
            pass
    # order per sequential producer
    by_p = {}
    for m, a in acked.items():
        p, i = m.split('-')
        by_p.setdefault(p, []).append((int(i), m))
    for p, lst in by_p.items():
        lst.sort()
        for (i, a), (j, b) in zip(lst, lst[1:]):
            if a in deliv and b in deliv:
                da = min(deliv[a], key=lambda h: h['ret'])
                db = min(deliv[b], key=lambda h: h['ret'])
                if db['ret'] < da['call']:
                    F.append({'cls': 'order', 'detail': {'producer': p, 'earlier': a, 'later': b, 'later_returned_ns_before_earlier_called': da['call'] - db['ret']}})
    # EMPTY while an acknowledged PUT was undelivered and nobody else was delivering it
    for g in H:
        if g['op'] == 'GET' and g['res'] == 'EMPTY':
            for m, a in acked.items():
                if a['ret'] < g['call']:
                    ds = deliv.get(m, [])
                    if not ds or all(d['call'] > g['ret'] for d in ds):
                        F.append({'cls': 'empty-while-undelivered', 'detail': {'msg': m, 'get_thread': g['th'], 'delivered_later': bool(ds)}})
                        break
    st = {'acked': len(acked), 'delivered': sum(1 for m in acked if m in deliv), 'puts': len(puts), 'gets': sum(1 for h in H if h['op'] == 'GET'),
          'empties': sum(1 for h in H if h['op'] == 'GET' and h['res'] == 'EMPTY'), 'put_errors': sum(1 for h in H if h['op'] == 'PUT' and h['res'] != 'OK')}
    return F, st

def check_events(ex):
    """C23 oracle over the harness event log: (seq, kind, text)"""
    F = []
    bucket_node = {n['bucket']: n['id'] for n in ex['nodes'] or []}
    md_node = {n['metadata']: n['id'] for n in ex['nodes'] or []}
    sealed = {}     # (node, topic, seg) -> event seq of the applied rollover that sealed it
    assign = {}     # (node, topic, seg) -> leader according to node's applied metadata
    cur = {}
    writes = 0
    late = 0
    for seq, kind, text in ex['events']:
        parts = text.split('|')
        if kind == 'applied_create':
            node = md_node.get(parts[0])
            assign[(node, parts[1], 1)] = int(parts[2])
        elif kind == 'applied_rollover':
            node = md_node.get(parts[0])
            topic, sseg, newl = parts[1], int(parts[2]), int(parts[3])
            sealed[(node, topic, sseg)] = seq
            assign[(node, topic, sseg + 1)] = newl
        elif kind == 'write_begin':
            node = bucket_node.get(parts[0])
            key = parts[1]
            # key = t_<topic>_s_<seg>
            body, seg = key.rsplit('_s_', 1)
            topic = body[2:]
            seg = int(seg)
            writes += 1
            if (node, topic, seg) in sealed:
                late += 1
                F.append({'cls': 'write-after-seal', 'detail': {'node': node, 'segment': key, 'sealed_at_event': sealed[(node, topic, seg)], 'write_begin_at_event': seq}})
            owner = assign.get((node, topic, seg))
            if owner is not None and owner != node:
                F.append({'cls': 'write-to-foreign-segment', 'detail': {'node': node, 'segment': key, 'assigned_to': owner, 'write_begin_at_event': seq}})
    # quiescent-point fencing probe: no writer, proposer or lagging follower is active any more, the node has applied the sealing long ago
    # and refreshes its leases inside the probed call itself - an accepted write has no race to hide behind
    probes = ex.get('fence') or []
    for p in probes:
        if p.get('accepted'):
            F.append({'cls': 'sealed-segment-write-accepted-at-quiescence', 'detail': {k: p.get(k) for k in ('node', 'key', 'current_segment', 'assigned_to', 'resp')}})
    fresh = ex.get('fence_fresh') or {}
    if fresh.get('accepted'):
        F.append({'cls': 'sealed-segment-write-accepted-right-after-seal', 'detail': {k: fresh.get(k) for k in ('node', 'key', 'sealed_segment', 'current_segment', 'new_leader', 'fillers', 'resp')}})
    return F, {'writes': writes, 'applied_rollovers': len(sealed), 'events': len(ex['events']), 'late_writes': late, 'fence_probes': len(probes),
               'fence_fresh_probes': 1 if 'accepted' in fresh else 0, 'fence_fresh_refused': 1 if fresh.get('accepted') is False else 0,
               'fence_probes_rejected': sum(1 for p in probes if not p.get('accepted'))}
