"""C08 A batch interrupted by a crash is recovered entirely or not at all."""
from . import crashfam

PROFILE = {'topics': 2, 'nops': (10, 24), 'op_w': [2, 6, 1.5, 0.2, 0, 0.15, 0.3], 'read_w': [4, 2, 0, 0, 0, 0, 0],
           'size_w': [5, 2.5, 1.5, 0.8, 0], 'batch_w': [7, 2.5, 0.3, 0], 'max_bytes': 90_000_000, 'no_final': True}
RULE = ('crash points restricted to the inside of batch appends (2..2000 entries, inside one block and spanning 1-3 blocks): sequential '
        '(mmap) path - before each block write / flush / allocation event of the batch; io_uring (FD) path - the hook writes a chosen '
        'subset of the prepared SQEs (every prefix, every single omission, random subsets) with pwrite and exits before submission. '
        'A fresh process recovers a copy of the directory without the cursor index; per topic the recovered entries beyond the '
        'acknowledged ones must be none or all of the in-flight batch (class partial-batch(in-flight)); a batch whose reply had arrived '
        'must be complete (class acked-missing, shared with C07). non-trivial = crash reached inside a batch of >= 2 entries')

def trig(f, t, res):
    return []

def run(tier, seed, budget):
    q = tier == 'quick'
    rep = crashfam.run_family('C08', tier, seed, budget, PROFILE, n_workloads=9 if q else 120, max_points=50 if q else 500,
                              batch_subsets=12 if q else 60, rule=RULE, param_spec={'backends': ['fd', 'fd', 'mmap']},
                              required={'crash_points': 120, 'in_flight_op:batch': 120, 'crash_points:batch-subset': 8, 'crash_at_event:write': 20},
                              assumptions=['process-crash model (see C07); for io_uring batches the admissible post-crash states are modelled as "any subset of '
                                           'the batch\'s independent writes completed"'],
                              profiles=('debug',) if q else ('debug', 'release'))
    # acked-missing findings of C07 are also C08 violations when the damaged acknowledged op was a batch: they are reported by C07
    return rep.finish()

def replay(path):
    return crashfam.replay_file(path)
