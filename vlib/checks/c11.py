"""C11 Opening damaged WAL state never crashes and never returns corrupt data.

Base directory states are produced by the engine itself (generated programs: several topics, rotations, cursors at
sealed and tail positions, clean markers; both backends). Each case = sparse copy of a base state + one or two seeded
byte-level mutations (bit flips aimed at entry headers / payloads / the cursor index / the marker file, truncation,
zeroed ranges, swapped blocks, stray and leftover files). A fresh worker process (debug build with overflow checks and
debug assertions; ASan build in the second pass; release build in the thorough tier) opens the mutant and reads every
topic with both read APIs. Oracles: (1) no panic reply, no abort / signal / sanitizer report, CPU-time limit not hit;
(2) every returned payload is byte-identical to an entry appended to *that* topic.
"""
import json, os, random, shutil, time
from .. import common, crash
from ..common import Report, Violation, pmap, rng_for, fingerprint, fresh_dir, rmdir
from ..seq import SeqRunner, HDR, BLOCK
from ..wsrv import Wsrv, Dead
from ..gen import gen_program
from ..payload import summary, decode_head

BASE_PROFILE = {'topics': 3, 'nops': (25, 60), 'op_w': [5, 2, 3, 0, 0.5, 0, 1.0], 'read_w': [4, 2, 0, 0, 0, 0, 0],
                'size_w': [7, 1.0, 0.8, 0.5, 0], 'batch_w': [6, 2, 0, 0], 'max_bytes': 40_000_000, 'no_final': True}

def build_base(binary, seed, i, root):
    """runs a generated program, leaves the directory in `root/base<i>`; returns description for the mutator"""
    rng = rng_for(seed, 'C11base', i)
    params = {'mode': rng.choice(['strict', {'alo': 2}]), 'sched': 'none', 'backend': ['fd', 'mmap'][i % 2], 'via': 'builder', 'key': 'k'}
    prog = gen_program(rng, BASE_PROFILE, params)
    d = os.path.join(root, 'base%d' % i)
    shutil.rmtree(d, ignore_errors=True)
    os.makedirs(d)
    for p in prog['instances'].values():
        p['dir'] = d
    sr = SeqRunner(binary, stop_on=('stream', 'open', 'dead'))
    lay = {}
    def on_close(s):
        for t in list(s.inst[1].topics):
            if len(t) < 100:
                lay[t] = s.w.call('layout', h=1, t=t)
        s.do_drop(1)
    sr.on_close = on_close
    sr.run(prog)
    if sr.findings or sr.dead:
        return None
    I = sr.inst[1]
    topics = {}
    headers = []      # (file, absolute offset of the entry header, payload length)
    for t, T in I.topics.items():
        if len(t) >= 100:
            continue
        topics[t] = [list(e) for e in T.log]
        i_e = 0
        for bid, f, boff, used, _tail in (lay.get(t, {}).get('blocks') or []):
            acc = 0
            while i_e < len(T.log) and acc + HDR + T.log[i_e][1] <= used:
                headers.append((f, boff + acc, T.log[i_e][1]))
                acc += HDR + T.log[i_e][1]
                i_e += 1
    files = sorted(os.listdir(os.path.join(d, 'k')))
    # where each topic's consumer cursor stands: (file, file offset of the cursor's block, in-block offset) - used to aim cursor forgeries
    cursors = {}
    for t in topics:
        L = lay.get(t, {})
        blocks = L.get('blocks') or []
        cur = L.get('cursor') or [0, 0, 0, 0]
        sealed = [b for b in blocks if not b[4]]
        if cur[0] < len(sealed):
            b = sealed[cur[0]]
            cursors[t] = (os.path.basename(b[1]), b[2], cur[1])
        else:
            tb = next((b for b in blocks if b[4] and b[0] == cur[2]), None) or next((b for b in blocks if b[4]), None)
            if tb:
                cursors[t] = (os.path.basename(tb[1]), tb[2], cur[3] if tb[0] == cur[2] else 0)
    header_topic = []
    for t, T in I.topics.items():
        if len(t) >= 100:
            continue
        i_e = 0
        for bid, f, boff, used, _tail in (lay.get(t, {}).get('blocks') or []):
            acc = 0
            while i_e < len(T.log) and acc + HDR + T.log[i_e][1] <= used:
                header_topic.append((os.path.basename(f), boff + acc, t))
                acc += HDR + T.log[i_e][1]
                i_e += 1
    return {'i': i, 'dir': d, 'params': params, 'topics': topics, 'cursors': cursors, 'header_topic': header_topic, 'headers': [(os.path.basename(f), o, l) for f, o, l in headers],
            'files': files, 'nops': len(prog['ops'])}

# ---------------------------------------------------------------------------------------------- mutations
def _flip(path, off, rng, nbits=1):
    with open(path, 'r+b') as f:
        for _ in range(nbits):
            f.seek(off)
            b = f.read(1)
            if not b:
                return
            f.seek(off)
            f.write(bytes([b[0] ^ (1 << rng.randrange(8))]))

def _write(path, off, data):
    with open(path, 'r+b') as f:
        f.seek(off)
        f.write(data)

def mutate(rng, base, d):
    """applies one mutation to the copy `d`; returns a descriptor"""
    k = os.path.join(d, 'k')
    files = sorted(os.listdir(k))
    segs = [f for f in files if f.isdigit()]
    idx = [f for f in files if f.startswith('read_offset_idx')]
    mark = [f for f in files if f.startswith('topic_clean')]
    hs = base['headers']
    kind = rng.choices(['hdr-bitflip', 'hdr-lenprefix', 'hdr-field', 'payload-bitflip', 'zero-range', 'truncate', 'swap-blocks', 'stray',
                        'index-damage', 'marker-damage', 'hdr-random', 'grow-garbage', 'cursor-forge'],
                       weights=[4, 2, 4, 2, 2, 2.5, 1, 2.5, 3, 2.5, 2, 0.5, 2.5 if base.get('cursors') else 0])[0]
    desc = {'kind': kind}
    if kind.startswith('hdr') or kind in ('payload-bitflip', 'zero-range'):
        if not hs:
            kind = desc['kind'] = 'stray'
        else:
            f, off, ln = rng.choice(hs)
            p = os.path.join(k, f)
            desc.update(file=f, header_at=off, payload_len=ln)
            if kind == 'hdr-bitflip':
                o = off + rng.randrange(0, 120)
                _flip(p, o, rng, rng.choice([1, 1, 2, 3])); desc['at'] = o
            elif kind == 'hdr-lenprefix':
                v = rng.choice([0, 1, 2, 7, 8, 63, 64, 100, 253, 254, 255, 256, 1000, 0x7FFF, 0xFFFF, rng.randrange(65536)])
                _write(p, off, v.to_bytes(2, 'little')); desc['value'] = v
            elif kind == 'hdr-field':
                o = off + 2 + 8 * rng.randrange(0, 8)
                v = rng.choice([0, 1, 0xFF, 0xFFFF, 0x7FFFFFFF, 0xFFFFFFFF, 1 << 40, (1 << 63) - 1, (1 << 64) - 1, rng.getrandbits(64), rng.getrandbits(20),
                                (1 << 32) + 5, BLOCK, BLOCK - 1, 1 << 30])
                w = rng.choice([4, 8])
                _write(p, o, (v & ((1 << (8 * w)) - 1)).to_bytes(w, 'little')); desc.update(at=o, value=v, width=w)
            elif kind == 'hdr-random':
                n = rng.choice([2, 8, 32, 64, 256])
                _write(p, off, bytes(rng.getrandbits(8) for _ in range(n))); desc['n'] = n
            elif kind == 'payload-bitflip':
                if ln == 0:
                    _flip(p, off + 3, rng)
                else:
                    o = off + HDR + rng.randrange(ln)
                    _flip(p, o, rng, rng.choice([1, 2])); desc['at'] = o
            else:
                n = rng.choice([1, 2, 8, 256, HDR + ln, 4096, 1 << 20])
                o = off + rng.choice([0, 0, 2, HDR, -HDR if off >= HDR else 0])
                _write(p, max(o, 0), b'\0' * n); desc.update(at=o, n=n)
    if kind == 'truncate':
        cands = segs + idx + mark
        f = rng.choice(cands)
        p = os.path.join(k, f)
        size = os.path.getsize(p)
        if f in segs:
            h = rng.choice(hs) if hs else (f, 0, 0)
            to = rng.choice([0, 1, 100, 255, 256, h[1] + 1, h[1] + 100, h[1] + HDR + h[2] // 2, BLOCK, BLOCK - 1, BLOCK + 1, 3 * BLOCK + 12345,
                             size - 1, size // 2, rng.randrange(size + 1)])
        else:
            to = rng.choice([0, 1, 2, 7, 8, 15, 16, size - 1, size // 2, rng.randrange(size + 1)])
        to = max(0, min(to, size))
        os.truncate(p, to)
        desc.update(file=f, to=to, was=size)
    elif kind == 'swap-blocks':
        if segs:
            f = rng.choice(segs)
            p = os.path.join(k, f)
            a, b = rng.sample(range(0, 6), 2)
            n = rng.choice([HDR, 4096, 1 << 16])
            with open(p, 'r+b') as fh:
                fh.seek(a * BLOCK); x = fh.read(n)
                fh.seek(b * BLOCK); y = fh.read(n)
                fh.seek(a * BLOCK); fh.write(y)
                fh.seek(b * BLOCK); fh.write(x)
            desc.update(file=f, blocks=[a, b], n=n)
    elif kind == 'stray':
        name = rng.choice(['0', '1', '9' * 13, '1' + '0' * 12, '17', 'zzz', '.hidden', 'read_offset_idx_index.db.tmp', 'topic_clean_index.db.tmp',
                           'x_index.db', 'core', '%d' % rng.randrange(10 ** 13), 'a' * 200, 'sub', 'link', '00000000000001'])
        p = os.path.join(k, name)
        what = rng.choice(['empty', 'garbage-small', 'garbage-4k', 'garbage-block', 'copy-of-segment-head', 'dir', 'symlink'])
        desc.update(name=name, what=what)
        if os.path.lexists(p):
            desc['what'] = 'exists'
        elif what == 'dir':
            os.makedirs(p)
        elif what == 'symlink':
            os.symlink(rng.choice(['/etc/passwd', '/nonexistent', '.', segs[0] if segs else 'x']), p)
        else:
            n = {'empty': 0, 'garbage-small': rng.randrange(1, 300), 'garbage-4k': 4096, 'garbage-block': BLOCK + rng.randrange(0, 5000)}.get(what, 0)
            with open(p, 'wb') as fh:
                if what == 'copy-of-segment-head' and segs:
                    with open(os.path.join(k, segs[0]), 'rb') as s:
                        fh.write(s.read(rng.choice([300, 4096, 70000])))
                elif what == 'garbage-block':
                    fh.truncate(n)
                    fh.seek(0); fh.write(bytes(rng.getrandbits(8) for _ in range(600)))
                else:
                    fh.write(bytes(rng.getrandbits(8) for _ in range(n)))
    elif kind in ('index-damage', 'marker-damage'):
        cands = idx if kind == 'index-damage' else mark
        name = cands[0] if cands else ('read_offset_idx_index.db' if kind == 'index-damage' else 'topic_clean_index.db')
        p = os.path.join(k, name)
        size = os.path.getsize(p) if os.path.exists(p) else 0
        how = rng.choice(['bitflip', 'bitflip', 'bitflip3', 'random-bytes', 'empty', 'huge-random', 'word', 'tail-word', 'append-garbage'])
        desc.update(file=name, how=how, size=size)
        if how in ('bitflip', 'bitflip3') and size:
            for _ in range(1 if how == 'bitflip' else 3):
                _flip(p, rng.randrange(size), rng)
        elif how == 'random-bytes':
            with open(p, 'wb') as fh:
                fh.write(bytes(rng.getrandbits(8) for _ in range(rng.choice([1, 7, 8, 16, 33, 64, 200]))))
        elif how == 'empty':
            open(p, 'wb').close()
        elif how == 'huge-random':
            with open(p, 'wb') as fh:
                fh.write(random.Random(rng.getrandbits(32)).randbytes(1 << 20))
        elif how == 'word' and size >= 8:
            o = 4 * rng.randrange(size // 4)
            _write(p, o, rng.choice([0xFFFFFFFF, 0x7FFFFFFF, 0x80000000, size, size + 1, rng.getrandbits(32)]).to_bytes(4, 'little')); desc['at'] = o
        elif how == 'tail-word' and size >= 16:
            o = size - 4 * rng.randrange(1, 5)
            _write(p, o, rng.choice([0xFFFFFFFF, 0x7FFFFFFF, 0x80000000, 0xFFFFFFF0, rng.getrandbits(32)]).to_bytes(4, 'little')); desc['at'] = o
        else:
            with open(p, 'ab') as fh:
                fh.write(bytes(rng.getrandbits(8) for _ in range(rng.choice([1, 8, 16, 100]))))
    elif kind == 'cursor-forge':
        # structurally valid cursor index whose in-block offset of one topic was replaced: either by an offset that lands exactly on an entry
        # header of ANOTHER topic further down the same segment file, or by a boundary value beyond the block
        name = idx[0] if idx else None
        cands = [(t, c) for t, c in (base.get('cursors') or {}).items() if c[2] > 0]
        if name and cands:
            t, (cf, cboff, coff) = rng.choice(cands)
            p = os.path.join(k, name)
            raw = open(p, 'rb').read()
            pat = coff.to_bytes(8, 'little')
            pos = [i for i in range(0, len(raw) - 7) if raw[i:i + 8] == pat]
            foreign = [(f, o, tt) for f, o, tt in base.get('header_topic', []) if f == cf and tt != t and o > cboff]
            if foreign and rng.random() < 0.7:
                f, o, tt = rng.choice(foreign)
                val = o - cboff
                desc['lands_on_entry_of'] = tt
            else:
                val = rng.choice([BLOCK, BLOCK + 256, 2 * BLOCK, coff + BLOCK, (1 << 30) - 8, 1 << 40, (1 << 63), (1 << 64) - 1, (1 << 64) - 300])
            for i in pos:
                _write(p, i, (val & ((1 << 64) - 1)).to_bytes(8, 'little'))
            desc.update(file=name, topic=t, old_offset=coff, new_offset=val, patched_positions=len(pos))
        else:
            desc['skipped'] = 'no topic with a non-zero persisted in-block offset'
    elif kind == 'grow-garbage' and segs:
        f = rng.choice(segs)
        p = os.path.join(k, f)
        with open(p, 'r+b') as fh:
            # plausible-looking garbage right behind the used part of some block
            h = rng.choice(hs) if hs else (f, 0, 0)
            fh.seek(h[1] + HDR + h[2])
            fh.write(bytes(rng.getrandbits(8) for _ in range(rng.choice([2, 300, 5000]))))
        desc.update(file=f)
    return desc

# ---------------------------------------------------------------------------------------------- execution
def read_all(w, topics, rng):
    """drain every topic (bounded) with both read APIs; returns ({topic: [summaries]}, error replies)"""
    out, errs = {}, []
    for t in list(topics) + ['never-written']:
        got = []
        limit = 3 * len(topics.get(t, [])) + 8
        for i in range(limit):
            api = rng.choice(['rn', 'rn', 'br', 'br-peek', 'rn-peek'])
            if api.startswith('rn'):
                r = w.send({'op': 'read_next', 'h': 1, 't': t, 'cp': api == 'rn'})
            else:
                r = w.send({'op': 'batch_read', 'h': 1, 't': t, 'max': rng.choice([0, 1, 300, 70000, 1 << 30]), 'cp': api == 'br'})
            if not r.get('ok'):
                errs.append({'topic': t, 'api': api, 'reply': r})
                if 'panic' in r:
                    break
                continue
            got += [tuple(e) for e in r['e']]
            if not r['e'] and api in ('rn', 'br'):
                break
        out[t] = got
        r = w.send({'op': 'count', 'h': 1, 't': t})
        if not r.get('ok'):
            errs.append({'topic': t, 'api': 'count', 'reply': r})
        r = w.send({'op': 'is_clean', 'h': 1, 't': t})
        if not r.get('ok'):
            errs.append({'topic': t, 'api': 'is_clean', 'reply': r})
    return out, errs

def case_task(task):
    rng = rng_for(task['seed'], 'C11case', task['idx'])
    base = task['base']
    d = fresh_dir('c11')
    errpath = os.path.join(d, 'stderr.txt')
    findings = []
    info = {}
    try:
        crash.sparse_copy_tree(base['dir'], d)
        descs = [mutate(rng, base, d)]
        if rng.random() < 0.2:
            descs.append(mutate(rng, base, d))
        info['mutations'] = descs
        env = dict(task.get('env') or {})
        rl = {'RLIMIT_CPU': task.get('cpu_limit', 40)}
        if task.get('as_limit'):
            rl['RLIMIT_AS'] = task['as_limit']
        w = Wsrv(task['binary'], timeout=task.get('timeout', 150), env=env, rlimits=rl, stderr_path=errpath)
        t0 = time.time()
        try:
            p = base['params']
            backend = p['backend'] if rng.random() < 0.8 else ('mmap' if p['backend'] == 'fd' else 'fd')
            r = w.send({'op': 'open', 'h': 1, 'dir': d, 'key': 'k', 'mode': p['mode'], 'sched': 'none', 'backend': backend, 'via': 'builder'})
            info['backend'] = backend
            if not r.get('ok'):
                if 'panic' in r:
                    findings.append({'cls': 'panic(open)', 'detail': r['panic'][:300]})
                else:
                    # a clean error is not a crash; the property only forbids panics/aborts/hangs/UB (counted)
                    info['open_error'] = r
            else:
                got, errs = read_all(w, base['topics'], rng)
                for e in errs:
                    if 'panic' in e['reply']:
                        findings.append({'cls': 'panic(%s)' % e['api'].split('-')[0], 'detail': {'topic': e['topic'], 'msg': e['reply']['panic'][:300]}})
                    else:
                        info['read_errors'] = info.get('read_errors', 0) + 1
                n_ret = 0
                for t, ents in got.items():
                    allowed = {summary(*e) for e in base['topics'].get(t, [])}
                    for g in ents:
                        n_ret += 1
                        if g not in allowed:
                            own = any(g in {summary(*e) for e in es} for tt, es in base['topics'].items() if tt != t)
                            findings.append({'cls': 'foreign-payload(other-topic)' if own else 'foreign-payload', 'detail': {'topic': t, 'got': g, 'claims': decode_head(g)}})
                            break
                info['returned_entries'] = n_ret
                w.send({'op': 'drop', 'h': 1})
            info['cpu_wall'] = round(time.time() - t0, 2)
        except Dead as e:
            st = w.stderr_text()[-3000:]
            if e.code is None:
                info['watchdog'] = True
            elif e.code in (-24, 152) or (e.code == -9 and 'RLIMIT' in st):
                findings.append({'cls': 'cpu-limit', 'detail': {'req': w.inflight}})
            elif 'AddressSanitizer' in st or 'LeakSanitizer' in st:
                first = next((l.strip() for l in st.splitlines() if 'ERROR: AddressSanitizer' in l), 'asan')
                frame = next((l.strip() for l in st.splitlines() if '/repo/src/' in l), '')
                findings.append({'cls': 'asan(%s)' % first.split('AddressSanitizer:')[-1].strip().split(' ')[0], 'detail': {'first': first[:200], 'frame': frame[:200], 'req': w.inflight}})
            else:
                sig = {-6: 'abort', -11: 'segv', -7: 'bus', -4: 'ill', -8: 'fpe'}.get(e.code, 'exit(%s)' % e.code)
                msg = [l for l in st.splitlines() if 'panic' in l or 'alloc' in l or 'overflow' in l][-2:]
                findings.append({'cls': 'died(%s)' % sig, 'detail': {'req': w.inflight, 'stderr': msg}})
        finally:
            w.close()
        return {'findings': findings, 'info': info}
    finally:
        rmdir(d)


# ---------------------------------------------------------------------------------------------- Miri pass
MIRIFLAGS = '-Zmiri-disable-isolation -Zmiri-tree-borrows -Zmiri-no-short-fd-operations -Zmiri-ignore-leaks'
MIRI_LENS = [40, 0, 130, 300, 17]

def miri_payload(tag, ln):
    b = bytearray(tag.to_bytes(8, 'little') + ln.to_bytes(8, 'little'))
    while len(b) < ln:
        b.append((tag + len(b)) & 0xFF)
    return bytes(b[:ln])

def miri_cmd(args):
    src = os.path.join(common.VERIF, 'harness', 'wmiri')
    env = common.cargo_env()
    env['MIRIFLAGS'] = MIRIFLAGS
    env['CARGO_TARGET_DIR'] = os.path.join(common.BUILD, 'wmiri')
    env['WALRUS_QUIET'] = '1'
    return ['cargo', '+nightly', 'miri', 'run', '--offline', '--quiet', '--manifest-path', os.path.join(src, 'Cargo.toml'), '--'] + args, env

def miri_base(root):
    """tiny base state written by the engine itself (under Miri too): 2 topics x 5 entries, one consumed, clean markers"""
    import subprocess
    d = os.path.join(root, 'miribase')
    shutil.rmtree(d, ignore_errors=True)
    os.makedirs(d)
    cmd, env = miri_cmd([d, 'make', 'a', 'b'])
    r = subprocess.run(cmd, env=env, capture_output=True, text=True, timeout=1800)
    if 'MADE' not in r.stdout:
        raise common.BuildError('miri base state: ' + (r.stderr or r.stdout)[-1500:])
    topics, headers = {}, []
    seg = sorted(f for f in os.listdir(os.path.join(d, 'k')) if f.isdigit())[0]
    tag = 0
    for ti, t in enumerate(['a', 'b']):
        off = ti * BLOCK
        ents = []
        for ln in MIRI_LENS:
            tag += 1
            ents.append((tag, ln))
            headers.append((seg, off, ln))
            off += HDR + ln
        topics[t] = ents
    return {'i': 'miri', 'dir': d, 'params': {'mode': 'strict', 'backend': 'fd'}, 'topics': {t: [list(e) for e in v] for t, v in topics.items()},
            'headers': headers, 'files': sorted(os.listdir(os.path.join(d, 'k'))), 'miri_topics': topics}

def miri_case(task):
    import subprocess
    rng = rng_for(task['seed'], 'C11miri', task['idx'])
    base = task['base']
    d = fresh_dir('c11m')
    try:
        crash.sparse_copy_tree(base['dir'], d)
        descs = [mutate(rng, base, d)] if task['idx'] > 0 else []     # case 0: the undamaged directory (control)
        cmd, env = miri_cmd([d, 'drain', 'a', 'b'])
        t0 = time.time()
        try:
            r = subprocess.run(cmd, env=env, capture_output=True, text=True, timeout=task.get('timeout', 1500))
        except subprocess.TimeoutExpired:
            return {'findings': [], 'info': {'mutations': descs, 'watchdog': True}}
        findings = []
        err = r.stderr
        if 'Undefined Behavior' in err:
            first = next((l.strip() for l in err.splitlines() if 'Undefined Behavior' in l), '')
            frame = next((l.strip() for l in err.splitlines() if '/repo/src/' in l), '')
            findings.append({'cls': 'miri(undefined-behavior)', 'detail': {'first': first[:300], 'repo_frame': frame[:200]}})
        elif 'panicked at' in err:
            msg = next((l.strip() for l in err.splitlines() if 'panicked at' in l), '')
            findings.append({'cls': 'panic(miri-run)', 'detail': {'msg': msg[:300]}})
        elif r.returncode != 0:
            findings.append({'cls': 'died(miri-run rc=%d)' % r.returncode, 'detail': {'stderr': err[-600:]}})
        n = 0
        allowed = {t: {(ln, miri_payload(tag, ln)[:24].hex()) for tag, ln in ents} for t, ents in base['miri_topics'].items()}
        for l in r.stdout.splitlines():
            p = l.split(' ')
            if p[0] == 'E' and p[1] in ('rn', 'br', 'peek'):
                n += 1
                key = (int(p[3]), p[4] if len(p) > 4 else '')
                if key not in allowed.get(p[2], set()):
                    findings.append({'cls': 'foreign-payload', 'detail': {'topic': p[2], 'got': key}})
                    break
        return {'findings': findings, 'info': {'mutations': descs, 'returned_entries': n, 'wall': round(time.time() - t0, 1), 'opened': 'OPENED' in r.stdout,
                                               'done': 'DONE' in r.stdout}}
    finally:
        rmdir(d)

RULE = ('base states: directories written by the engine for generated programs (3 topics, 25-60 ops, rotations, cursors mid-block / at the '
        'tail, clean markers; FD and mmap backends); case = sparse copy + 1-2 seeded mutations out of: bit flips in an entry header (first '
        '120 bytes), forged length prefix, forged 4/8-byte header words (sizes, relative pointers, next-block, checksum), random header '
        'bytes, payload bit flips, zeroed ranges, truncation of a segment / the cursor index / the marker file at aimed and random '
        'lengths, swapped block heads, stray files (numeric segment-like names, *.tmp leftovers, directories, symlinks, garbage of block '
        'size), cursor-index and marker damage (bit flips, random bytes, empty, 1 MiB random, forged words near the rkyv root), garbage '
        'behind the used part of a block. A fresh worker opens the mutant (same or the other backend) and reads every topic with read_next / '
        'batch_read (consuming and peeking, budgets 0..2^30), counts and marker queries; oracle: no panic reply, no abort/signal/ASan report, '
        'CPU-time rlimit not hit, every returned payload byte-identical to an entry appended to that topic. A clean io::Error from open is '
        'accepted (counted). non-trivial = mutant opened or rejected cleanly and the mutation touched bytes; distinct = distinct (base, mutation descriptor)')

def run(tier, seed, budget):
    q = tier == 'quick'
    rep = Report('C11', tier, seed, 'exploration')
    rep.rule = RULE
    rep.required = {'cases': 250, 'returned_entries': 2000, 'mutation:hdr-bitflip': 20, 'mutation:index-damage': 20, 'mutation:truncate': 15,
                    'mutation:stray': 15, 'mutation:marker-damage': 15, 'cases:asan': 50, 'cases:miri': 8, 'miri_runs_completed': 5}
    rep.assumptions = ['memory errors are observed through debug assertions / overflow checks (debug build), AddressSanitizer (second pass) and Miri (third pass: tiny directories, FD storage without io_uring / mmap / O_SYNC, Tree Borrows, 16-aligning allocator)',
                       'hang = CPU-time rlimit of the worker (40 s; undamaged directories need < 1 s)']
    root = os.path.join(common.scratch_root(), 'c11bases')
    os.makedirs(root, exist_ok=True)
    dbg = common.build('wsrv', 'debug')
    passes = [('debug', dbg, {}, 8 << 30, 380 if q else 12000)]
    try:
        asan = common.build('wsrv', 'debug', flavor='asan')
        passes.append(('asan', asan, {'ASAN_OPTIONS': 'detect_leaks=0:abort_on_error=0:halt_on_error=1:allocator_may_return_null=1:max_allocation_size_mb=4096'}, None, 90 if q else 4000))
    except common.BuildError as e:
        rep.add_inconclusive('ASan build failed: %s' % e)
    if not q:
        passes.append(('release', common.build('wsrv', 'release'), {}, 8 << 30, 8000))
    nb = 6 if q else 16
    bases = []
    for i in range(nb):
        b = build_base(dbg, seed, i, root)
        if b is None:
            rep.count('base_states_skipped')
            continue
        bases.append(b)
        rep.count('base_states')
        rep.count('base_entries', sum(len(v) for v in b['topics'].values()))
    if not bases:
        rep.add_inconclusive('no base state could be built')
        return rep.finish()
    idx = 0
    for pname, binary, env, aslim, n in passes:
        tasks = []
        for j in range(n):
            idx += 1
            tasks.append({'binary': binary, 'seed': seed, 'idx': idx, 'base': bases[j % len(bases)], 'env': env, 'as_limit': aslim, 'pass': pname,
                          'timeout': 300 if pname == 'asan' else 150})
        for t, res in pmap(case_task, tasks, budget_s=budget):
            if isinstance(res, Exception):
                rep.add_inconclusive(f'harness error: {res!r}')
                continue
            info = res['info']
            if info.get('watchdog'):
                rep.add_inconclusive('wall-clock watchdog: %s' % json.dumps(info.get('mutations'))[:200])
                continue
            muts = info.get('mutations', [])
            rep.add_case(fingerprint([t['base']['dir'], muts]), True, {'pass': t['pass'], 'base_params': t['base']['params'], 'mutations': muts,
                                                                      'returned_entries': info.get('returned_entries'), 'open_error': info.get('open_error')})
            rep.count('cases')
            rep.count('cases:' + t['pass'])
            for m in muts:
                rep.count('mutation:' + m['kind'])
            rep.count('returned_entries', info.get('returned_entries', 0))
            if 'open_error' in info:
                rep.count('open_rejected_cleanly')
            if info.get('read_errors'):
                rep.count('reads_rejected_cleanly', info['read_errors'])
            for f in res['findings']:
                rep.add_violation(Violation('C11', f['cls'], f['detail'], ['pass:' + t['pass']] + ['mutation:' + m['kind'] for m in muts],
                                            {'kind': 'c11-mutant', 'pass': t['pass'], 'seed': t['seed'], 'idx': t['idx'], 'base_index': t['base']['i'],
                                             'mutations': muts, 'finding': f}))
    # ---- Miri pass: the decode paths under an undefined-behaviour interpreter (FD storage, positional-I/O read branch)
    try:
        mb = miri_base(root)
        mt = [{'seed': seed, 'idx': j, 'base': mb} for j in range(14 if q else 320)]
        for t, res in pmap(miri_case, mt, budget_s=budget):
            if isinstance(res, Exception):
                rep.add_inconclusive(f'miri harness error: {res!r}')
                continue
            info = res['info']
            if info.get('watchdog'):
                rep.add_inconclusive('miri wall-clock watchdog')
                continue
            rep.add_case(fingerprint(['miri', t['idx'], info.get('mutations')]), True, {'pass': 'miri', 'mutations': info.get('mutations'), 'returned_entries': info.get('returned_entries')})
            rep.count('cases')
            rep.count('cases:miri')
            if info.get('done'):
                rep.count('miri_runs_completed')
            rep.count('returned_entries', info.get('returned_entries', 0))
            for m in info.get('mutations') or []:
                rep.count('mutation:' + m['kind'])
            for f in res['findings']:
                rep.add_violation(Violation('C11', f['cls'], f['detail'], ['pass:miri'] + ['mutation:' + m['kind'] for m in info.get('mutations') or []],
                                            {'kind': 'c11-miri', 'seed': t['seed'], 'idx': t['idx'], 'mutations': info.get('mutations'), 'finding': f}))
    except (common.BuildError, Exception) as e:
        rep.add_inconclusive('Miri pass unavailable: %r' % (e,))
    return rep.finish()

def replay(path):
    with open(path) as f:
        rp = json.load(f)
    r = rp['replay']
    seed = r['seed']
    root = os.path.join(common.scratch_root(), 'c11bases')
    os.makedirs(root, exist_ok=True)
    dbg = common.build('wsrv', 'debug')
    base = build_base(dbg, seed, r['base_index'], root)
    binary = dbg if r['pass'] == 'debug' else (common.build('wsrv', 'debug', flavor='asan') if r['pass'] == 'asan' else common.build('wsrv', 'release'))
    env = {'ASAN_OPTIONS': 'detect_leaks=0:halt_on_error=1:allocator_may_return_null=1:max_allocation_size_mb=4096'} if r['pass'] == 'asan' else {}
    res = case_task({'binary': binary, 'seed': seed, 'idx': r['idx'], 'base': base, 'env': env, 'as_limit': None if r['pass'] == 'asan' else 8 << 30, 'pass': r['pass']})
    print(json.dumps(res, indent=1, default=str)[:4000])
    hit = any(f['cls'] == rp['class'] for f in res['findings'])
    print('REPRODUCED' if hit else 'NOT-REPRODUCED')
    return 1 if hit else 0
