"""C25 Segment storage keys map one-to-one to (topic, segment). Real controller/types.rs; exhaustive over short topic strings
over the alphabet the key syntax itself uses, plus seeded random Unicode topics; oracle asserted in the harness (round trip + injectivity)."""
import json
from .. import common, dw
from ..common import Report, Violation, pmap

def task(t):
    return dw.run_mode(t['binary'], ['c25', t['maxlen'], t['nrandom'], t['seed']])

def run(tier, seed, budget):
    q = tier == 'quick'
    rep = Report('C25', tier, seed, 'exploration')
    rep.rule = ('every topic string over {t,s,_,0,1,a} up to length L (L=6 quick, 7 thorough) x segments {0,1,9,10,2^32,2^64-1}, plus seeded random topics '
                'built from key-syntax fragments ("_s_", "t_", digits), ASCII, multi-byte characters, with random u64 segments; oracle: '
                'parse_wal_key(wal_key(t,s)) == (t,s) and no two distinct pairs share a key (hash map over all keys of the run); every pair is '
                'non-trivial; distinct = distinct keys')
    rep.assumptions = dw.STANDINS[:0] + ['controller/types.rs is compiled unchanged into harness/dw']
    binary = dw.build()
    tasks = [{'binary': binary, 'maxlen': 6 if q else 7, 'nrandom': 200_000 if q else 1_000_000, 'seed': seed * 1000 + 1}]
    tasks += [{'binary': binary, 'maxlen': 3, 'nrandom': 300_000 if q else 2_000_000, 'seed': seed * 1000 + 2 + i} for i in range(3 if q else 15)]
    exhaustive_len = 0
    for t, res in pmap(task, tasks, budget_s=budget):
        if isinstance(res, Exception):
            rep.add_inconclusive(repr(res)); continue
        rep.evaluations += res['pairs']
        rep.count('pairs', res['pairs'])
        rep.count('distinct_keys', res['distinct_keys'])
        rep.count('random_pairs', res['random_pairs'])
        if t['maxlen'] >= 6:
            rep.count('exhaustive_strings', res['strings_exhaustive'])
            exhaustive_len = t['maxlen']
        if len(rep.samples) < 3:
            rep.samples.append({'args': ['c25', t['maxlen'], t['nrandom'], t['seed']], 'pairs': res['pairs']})
        for b in res['bad']:
            rep.add_violation(Violation('C25', 'roundtrip', b, [], {'kind': 'c25', 'case': b}))
        for c in res['coll']:
            rep.add_violation(Violation('C25', 'collision', c, [], {'kind': 'c25', 'case': c}))
    rep.distinct_measured = rep.cover.get('distinct_keys', 0)
    rep.extra['exhaustive_up_to_length'] = exhaustive_len
    rep.required = {'pairs': 500000}
    rc = rep.finish(exhaustive=False)
    return rc

def replay(path):
    rp = json.load(open(path))
    c = rp['replay']['case']
    print('case:', json.dumps(c))
    print('re-run ./check C25 to re-evaluate (the harness recomputes every pair)')
    return 1
