"""Shared driver for the checks that run generated single-threaded programs against wsrv and compare
with the sequential model (C01, C03, C15, C06, C17; C02 and C16 build on it)."""
import json, os, time
from .. import common
from ..common import Report, Violation, pmap, rng_for, fingerprint, fresh_dir, rmdir
from ..seq import SeqRunner
from ..gen import gen_program

MODES = ['strict', 'strict', {'alo': 1}, {'alo': 3}, {'alo': 8}]
SCHEDS = ['none', 'none', 'sync', 'ms:50']
BACKENDS = ['fd', 'mmap']

def pick_params(rng, spec=None):
    spec = spec or {}
    return {'mode': rng.choice(spec.get('modes', MODES)), 'sched': rng.choice(spec.get('scheds', SCHEDS)),
            'backend': rng.choice(spec.get('backends', BACKENDS)), 'via': 'builder', 'key': 'k'}

def add_layout_probes(prog):
    """insert H4 layout probes before the final drain so the evidence can count rotations really seen"""
    topics = sorted({op[1]['t'] for op in prog['ops'] if len(op) > 1 and 't' in op[1]})
    # the final section starts at the last plain 'counts' before the first 'drain'
    idx = next((i for i, op in enumerate(prog['ops']) if op[0] == 'drain'), len(prog['ops']))
    probes = [['raw', {'req': {'op': 'layout', 'h': 1, 't': t}, 'save': 'layout:' + t}] for t in topics]
    prog['ops'][idx:idx] = probes
    return prog

def run_prog(binary, prog, timeout=180.0, env=None, prefix=None, stop_on=('stream', 'open', 'dead'), probe_peeks=False):
    d = fresh_dir('p')
    try:
        for h, p in prog['instances'].items():
            p['dir'] = d
        sr = SeqRunner(binary, timeout=timeout, env=env, prefix=prefix, stop_on=stop_on)
        sr.probe_peeks = probe_peeks
        r = sr.run(prog)
        return r
    finally:
        for h, p in prog['instances'].items():
            p.pop('dir', None)
        rmdir(d)

def summarize(r, prog):
    blocks = 0
    for k, v in r.stats.get('raw', {}).items():
        if k.startswith('layout:'):
            blocks = max(blocks, len(v.get('blocks', [])))
    st = {k: v for k, v in r.stats.items() if k != 'raw'}
    st['max_blocks_per_topic'] = blocks
    return {'findings': r.findings, 'stats': st, 'features': prog.get('features', []),
            'nops': len(prog['ops']), 'processes': r.processes}

def seq_task(task):
    rng = rng_for(task['seed'], task['prop'], task['idx'])
    if task.get('pinned'):
        with open(task['pinned']) as f:
            prog = json.load(f)
        prog['instances'] = {int(k): v for k, v in prog['instances'].items()}
        params = dict(prog['instances'][1])
        prog['features'] = sorted(set(prog.get('features') or []) | {'pinned:' + os.path.basename(task['pinned'])})
        t0 = time.time()
        r = run_prog(task['binary'], prog, timeout=task.get('timeout', 180.0), probe_peeks=task.get('probe_peeks', False))
        out = summarize(r, prog)
        out.update(params=params, fp=fingerprint(prog['ops']), wall=time.time() - t0, prog=prog if r.findings else None,
                   sample={'pinned': os.path.basename(task['pinned']), 'params': params, 'nops': len(prog['ops'])})
        return out
    params = pick_params(rng, task.get('param_spec'))
    prog = gen_program(rng, task['profile'], params)
    if task.get('clock_regress') and rng.random() < task['clock_regress']:
        # wall clock jumps around between process lifetimes (file naming clock, hook H-clock)
        base = 1_700_000_000_000
        prog['ops'].insert(0, ['raw', {'req': {'op': 'clock', 'ms': base + 50_000_000}}])
        k = 0
        for op in prog['ops']:
            if op[0] == 'restart':
                k += 1
                op[1]['clock'] = base + rng.choice([-1, 1, -3, 2]) * k * 1_000_000 + rng.randint(0, 1000)
        prog['features'] = sorted(set(prog.get('features', [])) | {'clock-regression'})
    add_layout_probes(prog)
    t0 = time.time()
    r = run_prog(task['binary'], prog, timeout=task.get('timeout', 180.0), probe_peeks=task.get('probe_peeks', False))
    out = summarize(r, prog)
    out['params'] = params
    out['fp'] = fingerprint(prog['ops'])
    out['wall'] = time.time() - t0
    if r.findings:
        out['prog'] = prog
    out['sample'] = {'params': params, 'nops': len(prog['ops']), 'first_ops': prog['ops'][:12], 'features': prog.get('features')}
    return out

def nontrivial(res):
    st = res['stats']
    return st.get('entries_consumed', 0) > 0 and st.get('max_blocks_per_topic', 0) >= 2

def run_family(prop, tier, seed, budget, profile, kinds, n_quick, n_thorough, level='exploration',
               param_spec=None, rule='', required=None, cls_filter=None, triggers_of=None, assumptions=None,
               profiles=('debug',), clock_regress=0.0, extra_nontrivial=None, probe_peeks=False, nontrivial_fn=None):
    rep = Report(prop, tier, seed, level)
    rep.rule = rule
    rep.required = required or {}
    rep.assumptions = assumptions or []
    n = n_quick if tier == 'quick' else n_thorough
    for prof in (profiles if tier == 'thorough' else profiles[:1]):
        binary = common.build('wsrv', prof)
        tasks = [{'binary': binary, 'seed': seed, 'prop': prop + ':' + prof, 'idx': i, 'profile': profile,
                  'param_spec': param_spec, 'clock_regress': clock_regress, 'probe_peeks': probe_peeks} for i in range(n)]
        pdir = os.path.join(common.VERIF, 'pinned', prop)
        if os.path.isdir(pdir):
            for fn in sorted(os.listdir(pdir)):
                tasks.insert(0, {'binary': binary, 'seed': seed, 'prop': prop, 'idx': 0, 'pinned': os.path.join(pdir, fn),
                                 'probe_peeks': probe_peeks})
        for t, res in pmap(seq_task, tasks, budget_s=budget):
            if isinstance(res, Exception):
                rep.add_inconclusive(f'harness error: {res!r}')
                continue
            nt = (nontrivial_fn or nontrivial)(res) and (extra_nontrivial(res) if extra_nontrivial else True)
            rep.add_case(res['fp'], nt, res['sample'])
            rep.merge_cover({k: v for k, v in res['stats'].items() if isinstance(v, int)})
            rep.count('programs:' + prof)
            rep.count('programs_with_rotation', 1 if res['stats'].get('max_blocks_per_topic', 0) >= 2 else 0)
            for f in res['features']:
                rep.count('feature:' + f)
            rep.count('cfg:' + json.dumps(res['params']['mode']) + '/' + res['params']['backend'])
            for f in res['findings']:
                if f['kind'] == 'dead' and f['cls'] == 'timeout':
                    rep.add_inconclusive(f'watchdog: {f["detail"]}')
                    continue
                if f['kind'] not in kinds:
                    rep.count(f'other_kind_observations:{f["kind"]}:{f["cls"]}')
                    continue
                cls = f['cls']
                if cls_filter:
                    cls = cls_filter(f)
                    if cls is None:
                        continue
                trig = list(res['features']) + [f'mode:{"strict" if res["params"]["mode"] == "strict" else "alo"}',
                                                'backend:' + res['params']['backend'], 'profile:' + prof]
                if triggers_of:
                    trig += triggers_of(f, res)
                rep.add_violation(Violation(prop, cls, f['detail'], trig,
                                            {'kind': 'seq-program', 'profile': prof, 'program': res.get('prog'), 'finding': f}))
    return rep

def replay_file(path, stop_on=('stream', 'open', 'dead')):
    with open(path) as f:
        rp = json.load(f)
    prog = rp['replay']['program']
    binary = common.build('wsrv', rp['replay'].get('profile', 'debug'))
    r = run_prog(binary, prog, stop_on=stop_on)
    print(json.dumps({'findings': r.findings, 'stats': {k: v for k, v in r.stats.items() if k != 'raw'}}, indent=1, default=str))
    same = [f for f in r.findings if f['cls'] == rp['class']]
    print('REPRODUCED' if same else 'NOT-REPRODUCED')
    return 1 if same else 0
