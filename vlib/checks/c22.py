"""C22 Every acknowledged PUT is delivered by GET exactly once, in order (full stack over stand-ins, client-boundary history)."""
import json
from .. import common, dw
from ..common import Report, Violation, pmap, fingerprint
from . import dwfam

def task(t):
    ex = dwfam.run_execution(t['binary'], t['seed'], t['idx'])
    if ex['error']:
        return {'error': ex['error'], 'cfg': ex['cfg']}
    F, st = dwfam.check_clients(ex)
    G, st2 = dwfam.check_events(ex)
    full = None
    if (F or G) and not racy(ex['cfg']):
        full = {'hist': sorted(ex['hist'], key=lambda h: h['call']), 'events': ex['events'], 'nodes': ex['nodes'], 'state': ex.get('state')}
    return {'cfg': ex['cfg'], 'c22': F, 'c23': G, 'st': st, 'st2': st2, 'full': full, 'sample': {'cfg': ex['cfg'], 'history_head': [{k: h[k] for k in ('th', 'op', 'res', 'node')} | ({'msg': h['msg']} if 'msg' in h else {}) for h in ex['hist'][:10]]},
            'state': ex.get('state')}

RULE = ('executions of the full stack (real client.rs / controller / bucket / monitor / metadata / engine over the stand-in tokio, bincode and octopii): 1-3 nodes, '
        'rollover threshold 1-4 entries, 1-3 producer connections (sequential PUTs with unique payloads) and 0-2 consumer connections on random nodes, '
        'free-running threads with seeded random delays at the verif delay points (between lease check and key lock, after the engine append, before '
        'the rollover proposal, before the lease refresh), follower metadata lag 0-20 ms, lease loop and monitor running; after the clients finish a '
        'sequential consumer drains until EMPTY is stable. Oracle over the client-boundary history: every PUT answered OK delivered by exactly one GET; a '
        'later PUT of one producer never returned before the GET delivering an earlier one was called; EMPTY never answered while an acknowledged PUT '
        'was undelivered and unclaimed; nothing delivered that was not PUT. non-trivial = execution with >= 1 rollover applied and >= 1 delivery; '
        'distinct = distinct (configuration, seed)')

def racy(cfg):
    """segments roll over while a second writer (another producer connection), a second sealing proposer (the monitor loop) or a node with lagging
    metadata is active"""
    return cfg['threshold'] < 1000 and (cfg['producers'] >= 2 or cfg['nodes'] >= 2 or cfg.get('monitor', True))

def trig(cfg):
    t = ['nodes:%d' % cfg['nodes'], 'threshold:%d' % cfg['threshold']]
    if racy(cfg):
        t.append('rollover-with-concurrent-writers-or-followers')
    if cfg['consumers'] >= 2:
        t.append('concurrent-consumers')
    return t

def run(tier, seed, budget, prop='C22'):
    q = tier == 'quick'
    rep = Report(prop, tier, seed, 'exploration')
    rep.rule = RULE if prop == 'C22' else RULE_C23
    rep.assumptions = dw.STANDINS + ['schedules are free-running (OS scheduler + seeded delays), not enumerated']
    rep.required = {'executions': 60, 'rollovers_applied': 300, 'delivered': 1000, 'executions:fully-armed': 25, 'executions:fully-armed-with-rollover': 8, 'executions:multi-node': 20}
    binary = dw.build()
    tasks = [{'binary': binary, 'seed': seed, 'idx': i} for i in range(240 if q else 3000)]
    for t, res in pmap(task, tasks, jobs=12, budget_s=budget):
        if isinstance(res, Exception):
            rep.add_inconclusive(repr(res)); continue
        if res.get('error'):
            rep.add_inconclusive(res['error']); continue
        cfg = res['cfg']
        st, st2 = res['st'], res['st2']
        rep.add_case(fingerprint([t['idx'], cfg]), st2['applied_rollovers'] > 0 and st['delivered'] > 0, res['sample'])
        rep.count('executions')
        rep.count('executions:' + ('single-producer' if cfg['producers'] == 1 else 'multi-producer'))
        rep.count('executions:' + ('single-node' if cfg['nodes'] == 1 else 'multi-node'))
        if not racy(cfg):
            rep.count('executions:fully-armed')
            if cfg['threshold'] < 1000:
                rep.count('executions:fully-armed-with-rollover')
        for k in ('acked', 'delivered', 'puts', 'gets', 'empties', 'put_errors'):
            rep.count(k, st[k])
        rep.count('rollovers_applied', st2['applied_rollovers'])
        rep.count('data_plane_writes', st2['writes'])
        rep.count('events', st2['events'])
        rep.count('fence_probes', st2['fence_probes'])
        rep.count('fence_probes_rejected', st2['fence_probes_rejected'])
        rep.count('fence_fresh_probes', st2['fence_fresh_probes'])
        rep.count('fence_fresh_refused', st2['fence_fresh_refused'])
        for f in res['c22' if prop == 'C22' else 'c23']:
            rep.add_violation(Violation(prop, f['cls'], f['detail'], trig(cfg), {'kind': 'dw-execution', 'seed': t['seed'], 'idx': t['idx'], 'cfg': cfg, 'finding': f, 'execution': res.get('full')}))
    return rep.finish()

RULE_C23 = ('same executions as C22; oracle over the harness event log (global sequence numbers taken under one mutex at the hook): applied(node, create / rollover sealing '
            'segment s of topic t) recorded inside metadata.rs::apply under the state lock, write_begin(node, wal key) recorded in bucket.rs right before the engine '
            'append: no write_begin(n, t/s) after applied(n, rollover sealing t/s); no write_begin(n, t/s) while n\'s applied metadata assigns segment s of t to another '
            'node; and, at the quiescent point that ends every execution (clients stopped, every node caught up, leases refreshed), a forwarded append '
            'carrying the key of a segment that the node\'s applied metadata sealed before the quiescent period (up to 4 per node) must be refused; in the single-node executions without lease loop and monitor (every lease refresh happens inside a call) the open segment '
            'is then filled until the node applies its sealing and one more forwarded append with the key just sealed must be refused as well. '
            'non-trivial = execution with >= 1 rollover applied and >= 1 data-plane write')

def replay(path, prop='C22'):
    rp = json.load(open(path))
    r = rp['replay']
    binary = dw.build()
    hits = 0
    for _ in range(5):    # free-running schedules: the same seed reproduces the configuration, not the interleaving
        res = task({'binary': binary, 'seed': r['seed'], 'idx': r['idx']})
        fs = res.get('c22' if prop == 'C22' else 'c23') or []
        print([f['cls'] for f in fs][:10])
        if any(f['cls'] == rp['class'] for f in fs):
            hits += 1
            break
    print('REPRODUCED' if hits else 'NOT-REPRODUCED')
    return 1 if hits else 0
