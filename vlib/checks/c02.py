"""C02 Non-consuming reads never change what later reads or counts see."""
from . import seqfam

PROFILE = {'topics': 2, 'nops': (50, 140), 'op_w': [5, 2, 8, 0.5, 0.3, 0, 0], 'read_w': [2, 2, 2, 2, 2, 2, 3],
           'size_w': [6, 3, 1, 1, 0], 'max_bytes': 100_000_000,
           'prelude_small_block': 0.35, 'offset0_extra': 3}
KINDS = {'peek', 'offset', 'stream', 'count'}
RULE = ('generated programs mixing appends, consuming reads, peeks (read_next / batch read with checkpoint=false), peek+consume pairs '
        'with identical arguments and offset-addressed batch reads (any offset, checkpoint true or false); around every non-consuming '
        'call the per-file reclamation counters, per-block checkpoint flags and topic counts are snapshotted through the verif accessors '
        'and must be unchanged; the consuming stream must be unaffected (lock-step model); offset reads must be an in-order '
        'subsequence of the appended entries; non-trivial = program with >= 3 non-consuming calls and >= 2 blocks on a topic')

def cls_filter(f):
    if f['kind'] in ('stream', 'count'):
        # only streams/counts disturbed in programs, attributed to C02 when not also seen without peeks (C01/C15 cover those)
        return 'after-peeks:' + f['cls']
    return f['cls']

def run(tier, seed, budget):
    rep = seqfam.run_family('C02', tier, seed, budget, PROFILE, KINDS, n_quick=100, n_thorough=4000, rule=RULE,
                            required={'peek_probes': 100, 'peek_pairs': 50, 'br_offset': 50}, cls_filter=cls_filter,
                            probe_peeks=True, extra_nontrivial=lambda res: res['stats'].get('peek_probes', 0) >= 3,
                            assumptions=['reclamation bookkeeping is observed through the cfg(feature=verif) accessors verif_file_states / verif_block_states'])
    return rep.finish()

def replay(path):
    return seqfam.replay_file(path)
