"""C06 Restarting an instance is invisible to producers and consumers."""
from . import seqfam

PROFILE = {'topics': 3, 'nops': (50, 130), 'op_w': [5, 2, 5, 0.7, 1.0, 1.0, 0], 'read_w': [4, 3, 0.7, 0.7, 0, 0, 0],
           'size_w': [6, 3, 1, 1, 0.12], 'max_bytes': 140_000_000}
KINDS = {'stream', 'count', 'open', 'panic', 'error', 'dead', 'progress'}
RULE = ('generated histories of appends, batch appends, consuming / peeking reads, in-process reopen (drop + open) and clean process '
        'restart (new process, optionally with the file-naming clock moved forward or backward through the verif clock hook) over 3 '
        'topics, payloads 0 B .. 25 MiB; lock-step model: StrictlyAtOnce must continue exactly; AtLeastOnce may rewind but never skip; '
        'non-trivial = >= 1 reopen/restart, entries consumed, >= 2 blocks on a topic; distinct = distinct op lists')

def trig(f, res):
    return ['clock-regression'] if 'clock-regression' in res['features'] else []

def run(tier, seed, budget):
    rep = seqfam.run_family('C06', tier, seed, budget, PROFILE, KINDS, n_quick=100, n_thorough=4000, rule=RULE,
                            required={'reopens': 100, 'process_restarts': 30, 'clock_overrides': 10}, clock_regress=0.4,
                            extra_nontrivial=lambda res: res['stats'].get('reopens', 0) >= 1, profiles=('debug', 'release'),
                            assumptions=['clean shutdown = Walrus dropped and, for restarts, the process exited normally',
                                         'clock regression is emulated per process lifetime through the file-naming clock hook'])
    return rep.finish()

def replay(path):
    return seqfam.replay_file(path)
