"""C07 Acknowledged appends survive a process crash at any point."""
from . import crashfam

PROFILE = {'topics': 2, 'nops': (14, 34), 'op_w': [5, 2.5, 2.5, 0.3, 0, 0.25, 1.2], 'read_w': [4, 2, 0.3, 0.3, 0, 0, 0],
           'size_w': [6, 1.2, 1.2, 0.6, 0], 'batch_w': [6, 2, 0, 0], 'max_bytes': 60_000_000, 'no_final': True,
           'reject_w': 0.5, 'reject_kinds': ['over-cap', 'empty-batch', 'empty-batch'], 'prelude_alloc_only': 0.45}
RULE = ('every generated workload (appends, batch appends, reads, clean/dirty markers, optional clean restart; all fsync schedules, both '
        'backends, both modes) is run once to number its I/O events (file create/set_len/fsync/dir-fsync, block writes, flushes, io_uring '
        'submissions, index/marker tmp-write/fsync/rename/dir-fsync, background fsyncs) per process and thread class; then one fresh '
        'worker per crash point dies with _exit(137) before that event (or after writing a chosen subset of an io_uring batch). A fresh '
        'process must open (a) a copy of the directory without the cursor index and (b) the directory as left without error/panic, and '
        '(a) must yield, per topic, every append whose reply had arrived, in order and byte-identical, followed by at most a subsequence '
        'of the in-flight operation\'s entries, nothing else. non-trivial = crash reached and >= 1 acknowledged entry; distinct = '
        'distinct (workload, crash point)')

def fixed_workloads():
    """a topic whose first operation only allocates a block (empty / rejected batch), acknowledged data of another topic physically behind that
    block, then the first real entries of the first topic - on both backends, with and without a rotation"""
    out = []
    for be in ('fd', 'mmap'):
        for first in ('empty', 'over-cap'):
            ops = [['open', {'h': 1}]]
            if first == 'empty':
                ops.append(['batch', {'t': 'a', 'entries': [], 'expect': 'any'}])
            else:
                ops.append(['batch', {'t': 'a', 'entries': [[900, 16]], 'rep': 2001, 'expect': 'err'}])
            tag = 0
            for ln in (100, 3000, 40):
                tag += 1
                ops.append(['append', {'t': 'b', 'tag': tag, 'len': ln}])
            ops.append(['batch', {'t': 'b', 'entries': [[10, 64], [11, 500]]}])
            for ln in (200, 17, 6_000_000, 5_000_000):
                tag += 1
                ops.append(['append', {'t': 'a', 'tag': 20 + tag, 'len': ln}])
            ops.append(['rn', {'t': 'b', 'cp': True}])
            ops.append(['append', {'t': 'b', 'tag': 40, 'len': 128}])
            params = {'mode': 'strict', 'sched': 'none', 'backend': be, 'via': 'builder', 'key': 'k'}
            out.append(({'instances': {1: dict(params)}, 'ops': ops, 'features': ['fixed:alloc-only-first']}, params))
    return out

def run(tier, seed, budget):
    q = tier == 'quick'
    rep = crashfam.run_family('C07', tier, seed, budget, PROFILE, n_workloads=10 if q else 150, max_points=50 if q else 400,
                              batch_subsets=6 if q else 24, rule=RULE,
                              required={'crash_points': 250, 'crash_points:main': 120, 'crash_points:clean': 5, 'crash_at_event:write': 40,
                                        'crash_at_event:create': 3, 'crash_at_event:rename': 5, 'in_flight_op:append': 20, 'in_flight_op:batch': 10, 'fixed_workloads': 4},
                              assumptions=['process-crash model: _exit at the hook before the named I/O; completed syscalls and stores into MAP_SHARED mappings persist',
                                           'crash points of the persister/background thread classes are timing dependent relative to the API thread'],
                              profiles=('debug',) if q else ('debug', 'release'), fixed=fixed_workloads())
    return rep.finish()

def replay(path):
    return crashfam.replay_file(path)
