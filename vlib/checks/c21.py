"""C21 Raft log store and peer address book survive any number of restarts.

Real octopii/src/wal/mod.rs (WriteAheadLog over octopii's vendored engine copy) and octopii/src/openraft/storage.rs
(WalLogStore) in harness/oct; every lifetime is a fresh process (clean exit or SIGKILL between / during operations).
Layer 1: appended records (acknowledged = `append` returned Ok) vs `read_all()` of every later lifetime - the layer the peer
address book and WalLogStore::recover_from_wal are pure folds over. Layer 2: WalLogStore driven through append / truncate /
purge / save_vote / save_committed and compared after every reopen with a small model of those five operations.
"""
import json, os, signal, time
from .. import common
from ..common import Report, Violation, pmap, rng_for, fingerprint, fresh_dir, rmdir
from ..wsrv import Wsrv, Dead

STANDINS = ['standins/tokio (blocking thread-per-task), standins/bincode (re-implemented 1.3 wire format), standins/futures, standins/openraft: type-level stub of the '
            'storage API (data carriers and trait signatures only, no consensus logic)',
            'octopii/src/openraft/node.rs cannot be compiled here: the peer address book is covered at the WriteAheadLog layer it is a pure fold over']

class StoreModel:
    def __init__(self):
        self.log, self.vote, self.committed, self.purged = {}, None, None, None
    def apply(self, op):
        k = op['op']
        if k == 'store_append':
            for e in op['entries']:
                self.log[e[1]] = list(e)
        elif k == 'store_truncate':
            for i in [i for i in self.log if i >= op['index']]:
                del self.log[i]
        elif k == 'store_purge':
            for i in [i for i in self.log if i <= op['index']]:
                del self.log[i]
            self.purged = [op['term'], op['index']]
        elif k == 'save_vote':
            self.vote = [op['term'], op['node'], op['committed']]
        elif k == 'save_committed':
            self.committed = None if op['index'] is None else [op['term'], op['index']]
    def state(self):
        ents = [self.log[i] for i in sorted(self.log)]
        last = [ents[-1][0], ents[-1][1]] if ents else self.purged
        return {'last_purged': self.purged, 'last': last, 'vote': self.vote, 'committed': self.committed,
                'entries': [[e[0], e[1], e[2], e[3] if e[2] != 'blank' else None] for e in ents]}

def history(task):
    rng = rng_for(task['seed'], 'C21', task['idx'])
    layer = task['layer']
    d = fresh_dir('c21')
    path = os.path.join(d, 'n1', 'openraft_log')
    flush_ms = rng.choice([0, 100, 100])
    out = {'findings': [], 'stats': {}, 'inconclusive': None, 'sample': {'layer': layer, 'flush_ms': flush_ms, 'lifetimes': []}}
    def stat(k, n=1):
        out['stats'][k] = out['stats'].get(k, 0) + n
    acked = []            # layer 1: acknowledged records, in order
    M = StoreModel()      # layer 2
    seq = [0]
    nlife = rng.randint(2, 5)
    inflight = None
    try:
        for life in range(1, nlife + 1):
            w = Wsrv(task['binary'], timeout=90)
            try:
                r = w.send({'op': 'wal_open', 'path': path, 'flush_ms': flush_ms})
                if not r.get('ok'):
                    out['findings'].append({'cls': 'open-failed', 'detail': {'lifetime': life, 'reply': r}})
                    break
                trig = ['lifetime:%d' % life] + (['after-two-or-more-reopens'] if life >= 3 else [])
                if layer == 1:
                    r = w.send({'op': 'wal_read_all'})
                    got = r.get('records')
                    stat('reopen_checks')
                    exp_min = list(acked)
                    ok = got is not None and got[:len(exp_min)] == exp_min and (got[len(exp_min):] in ([], [inflight] if inflight else []))
                    if not ok:
                        k = next((i for i in range(min(len(got or []), len(exp_min))) if got[i] != exp_min[i]), min(len(got or []), len(exp_min)))
                        cls = 'records-missing-on-reopen' if got is not None and len(got) < len(exp_min) or (got and k < len(exp_min)) else 'records-differ-on-reopen'
                        out['findings'].append({'cls': cls, 'trig': trig, 'detail': {'lifetime': life, 'acknowledged': len(exp_min), 'recovered': len(got or []), 'first_diff': k,
                                                                                      'expected': exp_min[k] if k < len(exp_min) else None, 'got': (got or [None] * (k + 1))[k] if got and k < len(got) else None}})
                    if inflight and got and got[len(exp_min):] == [inflight]:
                        acked.append(inflight)      # the interrupted append did take effect
                    inflight = None
                else:
                    r = w.send({'op': 'store_open'})
                    if not r.get('ok'):
                        out['findings'].append({'cls': 'store-open-failed', 'trig': trig, 'detail': {'lifetime': life, 'reply': r}})
                        break
                    st = w.send({'op': 'store_state'})
                    stat('reopen_checks')
                    exp = M.state()
                    got = {k: st.get(k) for k in exp}
                    if life > 1 and got != exp:
                        diff = [k for k in exp if got.get(k) != exp[k]]
                        out['findings'].append({'cls': 'store-state-differs(%s)' % diff[0], 'trig': trig,
                                                'detail': {'lifetime': life, 'fields': diff, 'expected': {k: exp[k] for k in diff}, 'got': {k: got[k] for k in diff}}})
                        # continue from what the store reports would hide nothing: the model stays authoritative
                nops = rng.randint(3, 14)
                kill_at = rng.randrange(nops) if (life < nlife and rng.random() < 0.35) else None
                for i in range(nops):
                    if layer == 1:
                        seq[0] += 1
                        txt = 'rec-%d-%d-%s' % (life, seq[0], 'x' * (rng.choice([0, 10, 300, 5000]) if rng.random() > 0.06 else rng.choice([1_100_000, 2_500_000, 6_000_000])))
                        if len(txt) > 1_000_000:
                            stat('records_over_1MiB')
                        if kill_at == i and rng.random() < 0.5:
                            # kill while the append is in flight
                            inflight = txt
                            w.p.stdin.write((json.dumps({'op': 'wal_append', 'text': txt}) + '\n').encode()); w.p.stdin.flush()
                            time.sleep(rng.choice([0, 0.0005, 0.002]))
                            w.p.send_signal(signal.SIGKILL)
                            stat('killed_during_append')
                            break
                        r = w.send({'op': 'wal_append', 'text': txt})
                        if r.get('ok'):
                            acked.append(txt)
                            stat('records_acknowledged')
                    else:
                        last = max(M.log) if M.log else (M.purged[1] if M.purged else 0)
                        k = rng.choices(['append', 'truncate', 'purge', 'vote', 'committed'], weights=[6, 1, 1, 2, 2])[0]
                        if k == 'append':
                            n = rng.randint(1, 4)
                            ents = []
                            for j in range(n):
                                seq[0] += 1
                                kind = rng.choice(['normal', 'normal', 'blank', 'membership'])
                                ents.append([rng.randint(1, 3), last + 1 + j, kind, ('cmd-%d' % seq[0] + ('' if rng.random() > 0.04 else 'x' * rng.choice([1_100_000, 2_500_000]))) if kind == 'normal' else ([[1, 2, 3][:rng.randint(1, 3)]] if kind == 'membership' else None)])
                            op = {'op': 'store_append', 'entries': [[e[0], e[1], e[2], (e[3][0] if e[2] == 'membership' else e[3])] for e in ents]}
                            op_model = {'op': 'store_append', 'entries': [[e[0], e[1], e[2], (e[3] if e[2] != 'membership' else e[3])] for e in ents]}
                        elif k in ('truncate', 'purge'):
                            # also ids the store holds no entry for: a purge point beyond the local log (follower that installed a snapshot),
                            # a purge on an empty / fully purged log, a truncation behind the end
                            held = sorted(M.log)
                            cands = held + [last + 1, last + rng.randint(2, 12)] + ([0] if k == 'truncate' else [])
                            i0 = rng.choice(cands) if rng.random() < 0.5 or not held else rng.choice(held)
                            term = M.log[i0][0] if i0 in M.log else rng.randint(1, 4)
                            op = op_model = {'op': 'store_' + k, 'term': term, 'index': i0}
                            if i0 not in M.log:
                                stat('store_op_on_id_not_held')
                        elif k == 'vote':
                            op = op_model = {'op': 'save_vote', 'term': rng.randint(1, 9), 'node': rng.randint(1, 3), 'committed': rng.random() < 0.5}
                        else:
                            op = op_model = {'op': 'save_committed', 'term': rng.randint(1, 3), 'index': rng.choice([None, rng.randint(0, last + 1)])}
                        r = w.send(op)
                        if r.get('ok'):
                            M.apply(op_model)
                            stat('store_ops_acknowledged')
                            stat('store_op:' + op['op'])
                    if kill_at == i:
                        w.p.send_signal(signal.SIGKILL)
                        stat('killed_between_ops')
                        break
                out['sample']['lifetimes'].append({'ops': nops, 'killed': kill_at is not None})
                stat('lifetimes')
            except Dead as e:
                if e.code not in (-9,):
                    out['findings'].append({'cls': 'worker-died', 'detail': {'lifetime': life, 'code': e.code, 'req': w.inflight}})
                    break
            finally:
                w.close(kill=True) if w.p.poll() is None and False else w.close()
    except Exception as e:
        out['inconclusive'] = 'harness: %r' % e
    finally:
        rmdir(d)
    return out

RULE = ('histories of 2-5 process lifetimes over one store directory; every lifetime is a fresh worker process, ended by a clean exit or by SIGKILL between two operations '
        'or while an append is in flight (35 % of the lifetimes); layer 1: 3-14 WriteAheadLog::append calls per lifetime (records of 10 B - 5 KiB, flush interval 0 = '
        'SyncEach or 100 ms), oracle on every reopen: read_all() returns exactly all acknowledged records in order, plus at most the one in flight at a kill; layer 2: '
        'WalLogStore append (normal / blank / membership entries) / truncate / purge (also of ids the store holds no entry for: beyond the local log, on an empty log) / save_vote / save_committed, oracle on every reopen: get_log_state, read_vote, '
        'read_committed and try_get_log_entries(..) equal a model of those five operations. non-trivial = history with >= 1 reopen check after acknowledged operations')

def run(tier, seed, budget):
    q = tier == 'quick'
    rep = Report('C21', tier, seed, 'exploration')
    rep.rule = RULE
    rep.required = {'histories': 40, 'reopen_checks': 100, 'records_acknowledged': 200, 'store_ops_acknowledged': 200, 'killed_between_ops': 5, 'store_op_on_id_not_held': 10}
    rep.assumptions = STANDINS
    binary = common.build('oct', 'debug')
    tasks = [{'binary': binary, 'seed': seed, 'idx': i, 'layer': 1 + i % 2} for i in range(80 if q else 2000)]
    for t, res in pmap(history, tasks, budget_s=budget):
        if isinstance(res, Exception):
            rep.add_inconclusive(repr(res)); continue
        if res['inconclusive']:
            rep.add_inconclusive(res['inconclusive']); continue
        rep.add_case(fingerprint([t['seed'], t['idx']]), res['stats'].get('reopen_checks', 0) > 1, res['sample'])
        rep.count('histories')
        rep.count('histories:layer%d' % t['layer'])
        rep.merge_cover(res['stats'])
        for f in res['findings']:
            rep.add_violation(Violation('C21', f['cls'], f['detail'], ['layer:%d' % t['layer']] + f.get('trig', []),
                                        {'kind': 'c21-history', 'seed': t['seed'], 'idx': t['idx'], 'layer': t['layer'], 'finding': f}))
    return rep.finish()

def replay(path):
    rp = json.load(open(path))
    r = rp['replay']
    binary = common.build('oct', 'debug')
    res = history({'binary': binary, 'seed': r['seed'], 'idx': r['idx'], 'layer': r['layer']})
    print(json.dumps(res['findings'], indent=1, default=str)[:3000])
    hit = any(f['cls'] == rp['class'] for f in res['findings'])
    print('REPRODUCED' if hit else 'NOT-REPRODUCED')
    return 1 if hit else 0
