"""C05 Concurrent producers and consumers get exactly-once, ordered delivery.

Real threads inside one wsrv process, serialised by a token scheduler that switches only at the engine's own
`sched_point` hooks (places where the running thread holds no engine lock). Schedules: stateless DFS over the
choice tree for the small programs (bounded), seeded random walk and PCT for the larger ones, plus free-running
threads with random yields. Oracle: vlib/conc.py (exactly-once, per-producer order, batch contiguity, no partial
batch), plus - once per instance - the physical order of every topic recovered by a fresh process.
"""
import json, os, time
from .. import common, conc
from ..common import Report, Violation, pmap, rng_for, fingerprint, fresh_dir, rmdir
from ..wsrv import Wsrv, Dead
from ..payload import summary, decode_head

MODES = ['strict', 'strict', {'alo': 1}, {'alo': 3}]
BACKENDS = ['fd', 'mmap']

SHAPES = [
    # name, shape, schedule mode, armed-fully?
    ('1c-rn', dict(consumers=['rn'], producers=1, ops=(1, 2), prefill=(0, 2)), 'dfs'),
    ('1c-br', dict(consumers=['br'], producers=1, ops=(1, 2), prefill=(0, 2)), 'dfs'),
    ('1c-mix-2p', dict(consumers=['mix'], producers=2, ops=(1, 3), prefill=(0, 3)), 'random'),
    ('1c-mix-3p', dict(consumers=['mix'], producers=3, ops=(1, 3), prefill=(0, 3), batch_p=0.5), 'pct'),
    ('1c-rot', dict(consumers=['mix'], producers=2, ops=(1, 3), prefill=(0, 2), rotation=True), 'random'),
    ('2c-br', dict(consumers=['br', 'br'], producers=1, ops=(1, 3), prefill=(1, 4)), 'random'),
    ('2c-br-rot', dict(consumers=['br', 'br'], producers=2, ops=(1, 3), prefill=(0, 2), rotation=True), 'pct'),
    ('2c-rn', dict(consumers=['rn', 'rn'], producers=0, ops=(1, 2), prefill=(2, 4), extra_reads=0), 'dfs'),
    ('2c-mix', dict(consumers=['mix', 'rn'], producers=1, ops=(1, 3), prefill=(1, 3)), 'random'),
    ('2c-mix-rot', dict(consumers=['rn', 'mix'], producers=2, ops=(1, 2), prefill=(0, 2), rotation=True), 'random'),
    ('2p-only-batch', dict(consumers=['br'], producers=2, ops=(2, 3), prefill=(0, 1), batch_p=1.0), 'random'),
    # one producer whose appends rotate the block while one read_next consumer is inside it
    ('1c-rn-rot', dict(consumers=['rn'], producers=1, ops=(2, 3), prefill=(0, 1), rotation=True, batch_p=0.2), 'random'),
    ('1c-rn-rot-dfs', dict(consumers=['rn'], producers=1, ops=(1, 2), prefill=(0, 1), rotation=True, batch_p=0.0, extra_reads=0), 'dfs'),
]

def run_schedule(w, P, sched):
    pre = []
    for req in P.prefill:
        pre.append((req, w.send(req)))
    r = w.send({'op': 'run_concurrent', 'threads': P.threads, 'sched': sched}, timeout=60)
    if not r.get('ok'):
        return None, r
    drain = []
    empties = 0
    while len(drain) < 400:
        req = P.rn() if len(drain) % 3 != 2 else P.br(1 << 30)
        res = w.send(req)
        drain.append((req, res))
        if not res.get('ok'):
            break
        if not res['e']:
            empties += 1
            if empties >= 2:
                break
        else:
            empties = 0
    F, st = conc.check_history(P, pre, r['hist'], drain)
    st['steps'] = len(r.get('trace', []))
    st['aborted'] = bool(r.get('aborted'))
    return (F, st, r), None

def physical_check(binary, d, params, topics):
    """topics: {topic: Prog}; a fresh process reads every topic from the start (cursor index removed): every batch must be
    adjacent and in order in the physical log"""
    for root, _d, files in os.walk(d):
        for f in files:
            if f.startswith('read_offset_idx'):
                os.remove(os.path.join(root, f))
    w = Wsrv(binary, timeout=120)
    F = []
    n = 0
    try:
        r = w.send({'op': 'open', 'h': 1, 'dir': d, 'key': 'k', 'mode': 'strict', 'sched': 'none', 'backend': params['backend'], 'via': 'builder'})
        if not r.get('ok'):
            return [{'cls': 'reopen-failed', 'detail': r, 'topic': None}], 0
        for t, (P, acked) in topics.items():
            tags = []
            while True:
                r = w.send({'op': 'batch_read', 'h': 1, 't': t, 'max': 1 << 30, 'cp': True})
                if not r.get('ok') or not r['e']:
                    break
                for g in r['e']:
                    dd = decode_head(tuple(g))
                    tags.append(dd[0] if dd else None)
            n += len(tags)
            pos = {tg: i for i, tg in enumerate(tags)}
            for tg in acked:
                if tg not in pos:
                    F.append({'cls': 'lost(physical)', 'detail': {'tag': tg}, 'topic': t})
                    break
            for b, bt in P.batches.items():
                got = [pos[x] for x in bt if x in pos and x in acked]
                if len(got) >= 2 and got != list(range(got[0], got[0] + len(got))):
                    F.append({'cls': 'batch-not-contiguous', 'detail': {'batch': bt, 'physical_positions': got, 'where': 'physical-log'}, 'topic': t})
            # one producer's acknowledged entries are stored in the order the producer appended them
            last = {}
            for tg in tags:
                if tg in acked:
                    th = P.tags[tg]['thread']
                    if th in last and P.tags[tg]['seq'] < last[th]:
                        F.append({'cls': 'producer-order', 'detail': {'where': 'physical-log', 'thread': th}, 'topic': t})
                        break
                    last[th] = P.tags[tg]['seq']
        return F, n
    except Dead as e:
        return [{'cls': 'reopen-died', 'detail': str(e), 'topic': None}], n
    finally:
        w.close()

def worker(task):
    rng = rng_for(task['seed'], 'C05', task['idx'])
    name, shape, smode = task['shape']
    params = {'mode': rng.choice(MODES), 'backend': rng.choice(BACKENDS)}
    out = {'findings': [], 'schedules': 0, 'distinct': set(), 'stats': {}, 'params': params, 'shape': name, 'samples': [], 'inconclusive': []}
    def stat(k, n=1):
        out['stats'][k] = out['stats'].get(k, 0) + n
    budget_sched = task['n_sched']
    t_end = time.time() + task.get('wall', 120)
    prog_i = 0
    while budget_sched > 0 and time.time() < t_end:
        d = fresh_dir('c05')
        w = Wsrv(task['binary'], timeout=90)
        topics = {}
        try:
            r = w.send({'op': 'open', 'h': 1, 'dir': d, 'key': 'k', 'mode': params['mode'], 'sched': 'none', 'backend': params['backend'], 'via': 'builder'})
            if not r.get('ok'):
                out['inconclusive'].append('open failed: %r' % r)
                break
            written = 0
            ti = 0
            while budget_sched > 0 and written < 300_000_000 and ti < 900 and time.time() < t_end:
                prog_i += 1
                pseed = (task['seed'], 'C05p', task['idx'], prog_i)
                # DFS over one program; random/pct: a handful of seeds per program
                stack = [[]]
                seen_traces = set()
                per_prog = task['per_prog'] if smode == 'dfs' else task.get('per_prog_random', 6)
                k = 0
                exhausted = False
                while k < per_prog and budget_sched > 0 and written < 300_000_000 and time.time() < t_end:
                    if smode == 'dfs':
                        if not stack:
                            exhausted = True
                            break
                        forced = stack.pop()
                        sched = {'mode': 'dfs', 'forced': forced, 'max_steps': 400}
                    else:
                        forced = None
                        md = smode if not task.get('free') else 'free'
                        sched = {'mode': md, 'seed': rng.getrandbits(40) | 1, 'max_steps': 600, 'depth': rng.choice([2, 3]), 'est_steps': 30}
                    ti += 1
                    topic = 't%d' % ti
                    P = conc.gen_prog(rng_for(*pseed), topic, shape)
                    written += sum(v['len'] for v in P.tags.values())
                    res, err = run_schedule(w, P, sched)
                    k += 1
                    budget_sched -= 1
                    if err is not None:
                        out['inconclusive'].append('run_concurrent failed: %r' % (err,))
                        continue
                    F, st, r = res
                    acked_tags = st.pop('acked_tags')
                    out['schedules'] += 1
                    tr = r.get('trace', [])
                    key = (prog_i, tuple(c for c, n, t in tr)) if sched['mode'] != 'free' else (prog_i, 'free', k)
                    out['distinct'].add(fingerprint([task['idx'], key]))
                    for kk, v in st.items():
                        if isinstance(v, (int, bool)):
                            stat(kk, int(v))
                    stat('schedules:' + sched['mode'])
                    for f in P.features:
                        stat('feature:' + f)
                    sites = r.get('sites', [])
                    for s in sites:
                        stat('site:' + s.split(':', 1)[1])
                    switches = sum(1 for i in range(1, len(tr)) if tr[i][2] != tr[i - 1][2])
                    stat('context_switches', switches)
                    if len(out['samples']) < 2:
                        out['samples'].append({'shape': name, 'params': params, 'threads': P.threads, 'prefill': P.prefill, 'sched': sched,
                                               'choice_trace': [t for c, n, t in tr][:60], 'sites': sites[:40]})
                    topics[topic] = (P, acked_tags)
                    for f in F:
                        out['findings'].append({'cls': f['cls'], 'detail': f['detail'], 'features': sorted(P.features), 'shape': name,
                                                'replay': {'shape': [name, shape, smode], 'pseed': list(pseed), 'topic_index': ti, 'sched': sched,
                                                           'forced_trace': [c for c, n, t in tr], 'params': params}})
                    if smode == 'dfs':
                        base = len(forced)
                        for i in range(len(tr) - 1, base - 1, -1):
                            c, n, _t = tr[i]
                            for alt in range(n):
                                if alt != c:
                                    stack.append([x[0] for x in tr[:i]] + [alt])
                if exhausted:
                    stat('programs_dfs_exhausted')
                stat('programs')
            # physical order of everything this instance stored
            w.send({'op': 'drop', 'h': 1})
            w.close()
            w = None
            if task.get('physical', True) and topics:
                PF, n = physical_check(task['binary'], d, params, topics)
                stat('physical_entries_compared', n)
                for f in PF:
                    P = topics[f['topic']][0] if f['topic'] in topics else None
                    out['findings'].append({'cls': f['cls'], 'detail': f['detail'], 'features': sorted(P.features) if P else [], 'shape': name,
                                            'replay': {'note': 'physical-order check at instance end', 'topic': f['topic']}})
        except Dead as e:
            out['inconclusive'].append('worker died: %s' % e)
        finally:
            if w is not None:
                w.close()
            rmdir(d)
    out['distinct'] = sorted(out['distinct'])
    return out

RULE = ('2-5 real threads (0-3 producers issuing append / batch_append, 1-2 consumers issuing consuming read_next / batch_read) on one fresh '
        'topic per schedule, optionally with the first block pre-filled so that the rotation happens inside the concurrent window; threads '
        'are serialised by a token scheduler that switches only at the engine\'s sched_point hooks (after lock releases in read_next, '
        'after the writer snapshot and before I/O in batch reads, around the batch flag in the writer, before the writer-map write lock); '
        'schedules: bounded stateless DFS for the small shapes, seeded random walk and PCT (depth 2-3) for the others; histories are '
        'recorded at the API boundary with stamps from one atomic counter and closed by a single-threaded drain; oracle: every acknowledged '
        'entry delivered exactly once, per-producer order (a later entry never returned before the read delivering an earlier one was '
        'called; increasing within one result), batches contiguous (within a result, along a sole consumer\'s stream, and in the physical '
        'log re-read by a fresh process), no entry of a failed append delivered, no empty poll between the parts of a batch. '
        'non-trivial = at least one entry delivered inside the concurrent window and >= 1 context switch; distinct = distinct (program, choice trace)')

def trig(f):
    t = list(f['features'])
    return t

def run(tier, seed, budget):
    q = tier == 'quick'
    rep = Report('C05', tier, seed, 'exploration')
    rep.rule = RULE
    rep.required = {'schedules': 1200, 'context_switches': 3000, 'delivered_concurrently': 1000, 'feature:rotation-in-window': 150,
                    'site:rn_after_writer_snapshot': 100, 'site:br_after_writer_snapshot': 100, 'site:bw_after_flag': 50,
                    'feature:single-consumer': 300, 'feature:multi-consumer': 300}
    rep.assumptions = ['threads switch only at the sched_point hooks: code between two hooks runs atomically w.r.t. the other controlled threads '
                       '(interleavings inside lock-protected regions are not explored)', 'token scheduler and hooks are trusted to be behaviour-neutral']
    binary = common.build('wsrv', 'debug')
    tasks = []
    reps = 2 if q else 12
    idx = 0
    for rnd in range(reps):
        for sh in SHAPES:
            idx += 1
            rot = bool(sh[1].get('rotation'))
            tasks.append({'binary': binary, 'seed': seed, 'idx': idx, 'shape': sh, 'n_sched': (60 if rot else 220) if q else (600 if rot else 2500),
                          'per_prog': 120 if q else 1500, 'per_prog_random': 8 if q else 12,
                          # quick is bounded by schedule counts; its wall limit is a watchdog only, so that a loaded machine changes the
                          # duration of the run and not its coverage
                          'wall': 900 if q else 600,
                          'free': (rnd % 4 == 1) if q else (rnd % 4 == 3)})
    t_total = 0
    for t, res in pmap(worker, tasks, budget_s=budget):
        if isinstance(res, Exception):
            rep.add_inconclusive(f'harness error: {res!r}')
            continue
        for m in res['inconclusive']:
            rep.add_inconclusive(m)
        rep.count('schedules', res['schedules'])
        rep.count('schedules_shape:' + res['shape'], res['schedules'])
        rep.merge_cover(res['stats'])
        rep.count('cfg:' + json.dumps(res['params']['mode']) + '/' + res['params']['backend'], res['schedules'])
        for fp in res['distinct']:
            rep.add_case(fp, True, None)
        rep.evaluations += res['schedules'] - len(res['distinct'])
        for s in res['samples']:
            if len(rep.samples) < 5:
                rep.samples.append(s)
        for f in res['findings']:
            rep.add_violation(Violation('C05', f['cls'], f['detail'], f['features'] + ['shape:' + f['shape']],
                                        {'kind': 'c05-schedule', **f['replay']}))
    if not q:
        # auxiliary: the same free-running workloads under ThreadSanitizer (data-race reports are evidence, the verdict stays with the
        # behavioural oracle: the property is behavioural)
        try:
            import glob, re, shutil
            tsan = common.build('wsrv', 'debug', flavor='tsan')
            logdir = os.path.join(common.scratch_root(), 'tsanlog')
            os.makedirs(logdir, exist_ok=True)
            os.environ['TSAN_OPTIONS'] = 'halt_on_error=0:exitcode=0:log_path=%s/t' % logdir
            tt = [{'binary': tsan, 'seed': seed, 'idx': 5000 + i, 'shape': sh, 'n_sched': 60, 'per_prog': 10, 'per_prog_random': 6, 'wall': 300, 'free': True,
                   'physical': False} for i, sh in enumerate(SHAPES) if sh[2] != 'dfs']
            n_t = 0
            for t, res in pmap(worker, tt, jobs=8, budget_s=budget):
                if isinstance(res, Exception):
                    continue
                n_t += res['schedules']
                for f in res['findings']:
                    rep.add_violation(Violation('C05', f['cls'], f['detail'], f['features'] + ['shape:' + f['shape'], 'build:tsan'], {'kind': 'c05-schedule', **f['replay']}))
            os.environ.pop('TSAN_OPTIONS', None)
            blocks = {}
            for lf in glob.glob(logdir + '/t*'):
                txt = open(lf, errors='replace').read()
                for blk in txt.split('==================')[1:]:
                    if 'ThreadSanitizer' not in blk:
                        continue
                    kind = re.search(r'WARNING: ThreadSanitizer: ([^\(\n]+)', blk)
                    frames = tuple(m.group(1) for m in re.finditer(r'#\d+ (\S+) .*?/repo/src/', blk))[:2]
                    key = ((kind.group(1).strip() if kind else '?'),) + frames
                    blocks[key] = blocks.get(key, 0) + 1
            rep.count('tsan_free_running_schedules', n_t)
            rep.extra['aux_tsan_reports'] = [{'kind': k[0], 'first_repo_frames': list(k[1:]), 'count': v} for k, v in sorted(blocks.items(), key=lambda x: -x[1])]
            for k, v in blocks.items():
                print('AUX-TSAN property=C05 %s at %s (%d reports) - auxiliary, not a verdict' % (k[0], ' <- '.join(k[1:]), v))
        except common.BuildError as e:
            rep.extra['aux_tsan_reports'] = 'TSan build failed: %s' % e
    return rep.finish()

def replay(path):
    with open(path) as f:
        rp = json.load(f)
    r = rp['replay']
    if 'pseed' not in r:
        print('physical-order findings are replayed by re-running the check with the same VERIF_SEED')
        return 2
    binary = common.build('wsrv', 'debug')
    d = fresh_dir('c05r')
    w = Wsrv(binary, timeout=90)
    try:
        p = r['params']
        w.send({'op': 'open', 'h': 1, 'dir': d, 'key': 'k', 'mode': p['mode'], 'sched': 'none', 'backend': p['backend'], 'via': 'builder'})
        name, shape, smode = r['shape']
        P = conc.gen_prog(rng_for(*r['pseed']), 't%d' % r['topic_index'], shape)
        sched = dict(r['sched'])
        if sched['mode'] != 'free':
            sched = {'mode': 'dfs', 'forced': r['forced_trace'], 'max_steps': 1000}
        res, err = run_schedule(w, P, sched)
        if err:
            print('ERR', err)
            return 2
        F, st, rr = res
        st.pop('acked_tags', None)
        print(json.dumps({'findings': F, 'stats': st}, indent=1, default=str)[:4000])
        hit = any(f['cls'] == rp['class'] for f in F)
        print('REPRODUCED' if hit else 'NOT-REPRODUCED')
        return 1 if hit else 0
    finally:
        w.close()
        rmdir(d)
