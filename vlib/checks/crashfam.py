"""Shared driver of the crash-point checks C07 / C08 / C09 (vlib/crash.py does the work)."""
import json, os, time
from .. import common
from ..common import Report, Violation, pmap, rng_for, fingerprint
from ..gen import gen_program
from .. import crash

MODES = ['strict', 'strict', {'alo': 1}, {'alo': 3}, {'alo': 8}]
SCHEDS = ['none', 'sync', 'ms:50']
BACKENDS = ['fd', 'mmap']

def make_prog(seed, prop, idx, profile, spec=None):
    rng = rng_for(seed, prop, 'crash', idx)
    spec = spec or {}
    params = {'mode': rng.choice(spec.get('modes', MODES)), 'sched': rng.choice(spec.get('scheds', SCHEDS)),
              'backend': rng.choice(spec.get('backends', BACKENDS)), 'via': 'builder', 'key': 'k'}
    if profile.get('rn_only_p') and rng.random() < profile['rn_only_p']:
        # consumers that only use read_next: the AtLeastOnce redelivery bound of C09 applies to them
        profile = dict(profile, read_w=[5, 0, 0.3, 0, 0.3, 0, 0])
    if profile.get('topics_choices'):
        profile = dict(profile, topics=rng.choice(profile['topics_choices']))
    prog = gen_program(rng, profile, params)
    return prog, params

def count_task(task):
    prog = task['prog']
    r = crash.count_pass(task['binary'], prog)
    for p in prog['instances'].values():
        p.pop('dir', None)
    return r

def case_task(task):
    t0 = time.time()
    r = crash.crash_case(task['binary'], task['prog'], task['spec'], task.get('api', 'rn'))
    r['wall'] = time.time() - t0
    return r

def specs_for(prop, cnt, prog, rng, max_points, batch_subsets):
    """crash specs of one workload. C08: only points inside batch appends"""
    specs = []
    for pi, pr in enumerate(cnt['procs'], start=1):
        # main-class events, with the program op they fall into
        ranges = []
        prev = 0
        for opi, kind, upto in pr['ops']:
            ranges.append((prev + 1, upto, opi, kind))
            prev = upto
        def op_of(k):
            for lo, hi, opi, kind in ranges:
                if lo <= k <= hi:
                    return kind
            return 'close'
        for k in range(1, pr['main'] + 1):
            ok = op_of(k)
            if prop == 'C08' and ok not in ('batch',):
                continue
            kinds = pr['kinds'].get('main', [])
            specs.append({'proc': pi, 'class': 0, 'k': k, 'in_op': ok, 'ev': kinds[k - 1] if k - 1 < len(kinds) else '?'})
        if prop != 'C08':
            for ci, cname in ((1, 'clean'), (2, 'bg')):
                for k in range(1, pr[cname] + 1):
                    kinds = pr['kinds'].get(cname, [])
                    specs.append({'proc': pi, 'class': ci, 'k': k, 'in_op': '?', 'ev': kinds[k - 1] if k - 1 < len(kinds) else '?'})
        if batch_subsets:
            for nth, n in enumerate(pr['batches']):
                subs = []
                for j in range(0, n + 1):
                    subs.append(list(range(j)))            # prefixes (incl. none / all)
                for j in range(n):
                    subs.append([i for i in range(n) if i != j])   # single omissions
                for _ in range(min(6, n)):
                    subs.append(sorted(rng.sample(range(n), rng.randint(1, n))))
                if len(subs) > batch_subsets:
                    keep_always = [[], list(range(n))]
                    subs = keep_always + rng.sample(subs, batch_subsets - 2)
                seen = set()
                for s in subs:
                    key = tuple(s)
                    if key in seen:
                        continue
                    seen.add(key)
                    specs.append({'proc': pi, 'batch': nth, 'keep': s, 'in_op': 'batch', 'ev': 'uring-subset(%d of %d)' % (len(s), n)})
    if len(specs) > max_points:
        specs = rng.sample(specs, max_points)
    return specs

def run_family(prop, tier, seed, budget, profile, n_workloads, max_points, batch_subsets, rule, required, param_spec=None,
               assumptions=None, triggers_of=None, profiles=('debug',), fixed=None):
    rep = Report(prop, tier, seed, 'fault_enumeration')
    rep.rule = rule
    rep.required = required
    rep.assumptions = assumptions or []
    for prof in profiles:
        binary = common.build('wsrv', prof)
        progs = []
        for i in range(n_workloads):
            prog, params = make_prog(seed, prop + ':' + prof, i, profile, param_spec)
            progs.append((i, prog, params))
        # hand-written workloads aimed at layouts the generator reaches rarely: every one of their crash points is used
        for j, (fprog, fparams) in enumerate(fixed or []):
            import copy
            progs.append((10_000 + j, copy.deepcopy(fprog), dict(fparams)))
        counts = {}
        for t, res in pmap(count_task, [{'binary': binary, 'prog': p, 'i': i} for i, p, _ in progs]):
            if isinstance(res, Exception):
                rep.add_inconclusive(f'count pass: {res!r}')
                continue
            counts[t['i']] = res
        tasks = []
        for i, prog, params in progs:
            cnt = counts.get(i)
            if cnt is None:
                continue
            if cnt['findings']:
                # the un-crashed run already disagrees with the sequential model: not this check's business
                rep.count('workloads_skipped_precrash_findings')
                for f in cnt['findings']:
                    rep.count('other_kind_observations:' + f['kind'] + ':' + f['cls'])
                continue
            rng = rng_for(seed, prop, 'specs', i)
            specs = specs_for(prop, cnt, prog, rng, max_points if i < 10_000 else 10 ** 9, batch_subsets if params['backend'] == 'fd' else 0)
            if i >= 10_000:
                rep.count('fixed_workloads')
            rep.count('workloads')
            rep.count('io_events_numbered', sum(p['main'] + p['clean'] + p['bg'] for p in cnt['procs']))
            for s in specs:
                tasks.append({'binary': binary, 'prog': prog, 'spec': s, 'params': params, 'wi': i,
                              'api': rng.choice(['rn', 'rn', 'br'])})
        rng_for(seed, prop, 'shuffle').shuffle(tasks)
        for t, res in pmap(case_task, tasks, budget_s=budget):
            if isinstance(res, Exception):
                rep.add_inconclusive(f'harness error: {res!r}')
                continue
            s = t['spec']
            if res['outcome'] != 'crashed':
                rep.count('points_not_reached')
                for c in res.get('pre', []):
                    rep.count('precrash_observations:' + c)
                continue
            cname = 'batch-subset' if 'batch' in s else crash.CLASSES[s['class']]
            fp = fingerprint([t['wi'], s])
            info = res['info']
            rep.add_case(fp, info.get('acked', 0) > 0,
                         {'workload': t['wi'], 'params': t['params'], 'crash': s, 'in_flight': info.get('inflight'), 'acked_entries': info.get('acked'),
                          'returned_reads': info.get('consumed')})
            rep.count('crash_points')
            rep.count('crash_points:' + cname)
            rep.count('crash_at_event:' + str(s.get('ev')).split('(')[0])
            rep.count('in_flight_op:' + str(info.get('inflight')))
            rep.count('cfg:' + json.dumps(t['params']['mode']) + '/' + t['params']['backend'] + '/' + t['params']['sched'])
            rep.count('recovered_entries_compared', info.get('compared_entries', 0))
            if info.get('lifetimes', 1) > 1:
                rep.count('crash_points_after_earlier_restart')
            if info.get('consumed', 0) > 0:
                rep.count('crash_points_with_consumed_entries')
            for f in res['findings']:
                trig = ['mode:' + ('strict' if t['params']['mode'] == 'strict' else 'alo'), 'backend:' + t['params']['backend'],
                        'crash-class:' + cname, 'in-flight:' + str(info.get('inflight'))]
                if info.get('inflight') == 'batch':
                    trig.append('crash-inside-batch')
                if 'batch' in s:
                    trig.append('uring-subset')     # the crash applied an arbitrary subset of the io_uring batch's independent writes
                if triggers_of:
                    trig += triggers_of(f, t, res)
                rep.add_violation(Violation(f['prop'], f['cls'], f['detail'], trig,
                                            {'kind': 'crash-case', 'profile': prof, 'program': t['prog'], 'crash': s, 'recover_api': t.get('api'),
                                             'finding': f, 'info': info}))
    return rep

def replay_file(path):
    with open(path) as f:
        rp = json.load(f)
    r = rp['replay']
    prog = r['program']
    prog['instances'] = {int(k): v for k, v in prog['instances'].items()}
    binary = common.build('wsrv', r.get('profile', 'debug'))
    n = 0
    for _ in range(5):   # crash points of the persister / background classes are timing dependent
        res = crash.crash_case(binary, prog, r['crash'], r.get('recover_api', 'rn'))
        print(json.dumps(res, indent=1, default=str)[:3000])
        if any(f['cls'] == rp['class'] for f in res['findings']):
            n += 1
            break
    print('REPRODUCED' if n else 'NOT-REPRODUCED')
    return 1 if n else 0
