"""C20 Metadata replicas converge, including via snapshot transfer.
Part 1: Metadata snapshot/restore over the C18 exploration (harness/dw). Part 2: the Raft state-machine adapter
(octopii/src/openraft/storage.rs MemStateMachine build_snapshot / install_snapshot, compiled unchanged in harness/oct) with
octopii's own KvStateMachine as the application: generated command streams through adapter A, snapshot, install into adapter B
(which may hold stale state), common suffix on both; application states compared as decoded maps."""
import json
from .. import common, dw
from ..common import Report, Violation, pmap, rng_for, fingerprint
from ..wsrv import Wsrv, Dead
from . import c18, c21

def transfer_task(t):
    rng = rng_for(t['seed'], 'C20p2', t['idx'])
    w = Wsrv(t['binary'], timeout=60)
    out = []
    try:
        for j in range(t['n']):
            keys = ['k%d' % i for i in range(rng.randint(1, 6))]
            def cmds(n):
                c = []
                for _ in range(n):
                    r = rng.random()
                    if r < 0.65:
                        c.append('SET %s v%d' % (rng.choice(keys), rng.randrange(1000)))
                    elif r < 0.85:
                        c.append('DELETE %s' % rng.choice(keys))
                    elif r < 0.92:
                        c.append(None)                       # blank entry
                    else:
                        c.append([1, 2, 3][:rng.randint(1, 3)])   # membership entry
                return c
            req = {'op': 'snapshot_transfer', 'cmds': cmds(rng.randint(0, 25)), 'suffix': cmds(rng.randint(0, 8)),
                   'b_before': cmds(rng.choice([0, 0, 3]))}
            r = w.send(req)
            f = None
            if not r.get('ok'):
                f = {'cls': 'adapter-error', 'detail': r}
            elif r['errors']:
                f = {'cls': 'adapter-error', 'detail': r['errors']}
            elif r['b_after_install'] != r['a_at_snapshot']:
                f = {'cls': 'installed-state-differs', 'detail': {'sender': r['a_at_snapshot'], 'receiver': r['b_after_install'], 'snapshot_bytes': r['snapshot_bytes']}}
            elif r['b_final'] != r['a_final']:
                f = {'cls': 'diverged-after-common-suffix', 'detail': {'sender': r['a_final'], 'receiver': r['b_final']}}
            elif not r['applied_equal'] or not r['membership_equal']:
                f = {'cls': 'applied-state-differs', 'detail': {'applied_equal': r['applied_equal'], 'membership_equal': r['membership_equal']}}
            out.append({'req': {k: req[k] for k in ('cmds', 'suffix', 'b_before')}, 'finding': f, 'nonempty': bool(r.get('a_at_snapshot')), 'j': j})
        # concurrent transfers: the snapshot is built while an applier thread keeps applying (as openraft does)
        for j in range(t['n'] // 2):
            keys = ['k%d' % i for i in range(rng.randint(1, 4))]
            n = rng.randint(20, 80)
            cmds = []
            for i in range(n):
                cmds.append('SET %s %d' % (rng.choice(keys), i) if rng.random() < 0.85 else 'DELETE %s' % rng.choice(keys))
            req = {'op': 'snapshot_transfer_concurrent', 'cmds': cmds, 'delay_us': rng.choice([100, 300, 1000, 3000]), 'pause_us': rng.choice([0, 20, 100]),
                   'start_after': rng.randint(0, n // 2)}
            r = w.send(req)
            f = None
            if not r.get('ok'):
                f = {'cls': 'adapter-error', 'detail': r}
            else:
                N = r['snapshot_last_index']
                model = {}
                for c in cmds[:N]:
                    p = c.split()
                    if p[0] == 'SET':
                        model[p[1]] = p[2]
                    else:
                        model.pop(p[1], None)
                if r['b_after_install'] != model:
                    f = {'cls': 'snapshot-content-does-not-match-its-log-id', 'detail': {'snapshot_last_index': N, 'state_at_that_index': model, 'installed': r['b_after_install']}}
                elif r['b_final'] != r['a_final']:
                    f = {'cls': 'diverged-after-catch-up', 'detail': {'sender': r['a_final'], 'receiver': r['b_final']}}
            out.append({'req': {k: v for k, v in req.items() if k != 'op'}, 'finding': f, 'nonempty': bool(r.get('b_after_install')), 'j': 1000 + j, 'concurrent': True,
                        'mid': r.get('ok') and 0 < r['snapshot_last_index'] < len(cmds)})
    finally:
        w.close()
    return out

def run(tier, seed, budget):
    q = tier == 'quick'
    rep = Report('C20', tier, seed, 'exploration')
    rep.rule = c18.RULE_C20 + ('; part 2: %d generated transfers: 0-25 SET/DELETE/blank/membership entries applied through adapter A, build_snapshot, install_snapshot into adapter B '
                               '(one third with stale pre-existing state), 0-8 common suffix entries on both; oracle: B\'s application state after install == A\'s at the snapshot, '
                               'both equal after the suffix, applied log id and membership equal; plus half as many concurrent transfers: an applier thread keeps applying 20-80 entries to adapter A while build_snapshot runs on a clone (the application\'s snapshot() is slowed by 0.1-3 ms), B installs it and applies every entry after the snapshot\'s log id; oracle: B after install == state after exactly snapshot_last_index commands, B == A at the end' % (600 if q else 20000))
    rep.assumptions = [dw.STANDINS[1], 'part 1: metadata.rs compiled unchanged into harness/dw; states compared as decoded structures'] + c21.STANDINS[:1] + \
                      ['part 2 uses octopii\'s KvStateMachine as the application behind the adapter (the adapter is generic over StateMachineTrait)']
    binary = dw.build()
    tasks = [{'kind': 'meta', 'binary': binary, 'depth': 4 if q else 5, 'nrandom': 100 if q else 500, 'seed': seed * 100 + 1, 'main': True}]
    tasks += [{'kind': 'meta', 'binary': binary, 'depth': 2, 'nrandom': 400 if q else 3000, 'seed': seed * 100 + 2 + i} for i in range(4 if q else 15)]
    octb = common.build('oct', 'debug')
    tasks += [{'kind': 'xfer', 'binary': octb, 'seed': seed, 'idx': i, 'n': 50 if q else 1000} for i in range(12 if q else 20)]
    states = 0
    exhaustive = False
    for t, res in pmap(lambda_task, tasks, budget_s=budget):
        if isinstance(res, Exception):
            rep.add_inconclusive(repr(res)); continue
        if t['kind'] == 'meta':
            rep.evaluations += res['snapshots_checked']
            for k in ('transitions', 'random_sequences', 'snapshots_checked', 'lagging_installs'):
                rep.count(k, res[k])
            if t.get('main'):
                exhaustive = res['exhaustive']
                states = res['distinct_states']
                rep.count('distinct_states', states)
                rep.extra['exhaustive_depth'] = res['depth']
                for s in res['samples']:
                    rep.samples.append({'part': 1, 'state_reached_by': s})
            for v in res['c20_violation_samples']:
                rep.add_violation(Violation('C20', v['cls'], v, ['part:1'], {'kind': 'meta', 'args': ['meta', t['depth'], t['nrandom'], t['seed']], 'case': v}))
        else:
            for c in res:
                rep.add_case(fingerprint(['xfer', t['idx'], c['j']]), c['nonempty'], {'part': 2, **c['req']})
                rep.count('snapshot_transfers')
                if c.get('concurrent'):
                    rep.count('concurrent_transfers')
                    if c.get('mid'):
                        rep.count('concurrent_transfers_snapshot_taken_mid_stream')
                if c['nonempty']:
                    rep.count('transfers_with_nonempty_state')
                if c['finding']:
                    rep.add_violation(Violation('C20', c['finding']['cls'], c['finding']['detail'], ['part:2'],
                                                {'kind': 'xfer', 'seed': t['seed'], 'idx': t['idx'], 'case': c['j'], 'request': c['req']}))
    rep.distinct_measured = states + len(rep.nontrivial)
    rep.required = {'snapshots_checked': 3000, 'distinct_states': 3000, 'snapshot_transfers': 300, 'transfers_with_nonempty_state': 200, 'concurrent_transfers': 100, 'concurrent_transfers_snapshot_taken_mid_stream': 30}
    return rep.finish(exhaustive=False)

def lambda_task(t):
    return c18.task(t) if t['kind'] == 'meta' else transfer_task(t)

def replay(path):
    rp = json.load(open(path))
    r = rp['replay']
    if r['kind'] == 'meta':
        return c18.replay(path)
    binary = common.build('oct', 'debug')
    w = Wsrv(binary, timeout=60)
    try:
        if 'delay_us' in r['request']:
            hit = False
            for _ in range(20):
                res = w.send({'op': 'snapshot_transfer_concurrent', **r['request']})
                N = res.get('snapshot_last_index', 0)
                model = {}
                for c in r['request']['cmds'][:N]:
                    p = c.split()
                    model.__setitem__(p[1], p[2]) if p[0] == 'SET' else model.pop(p[1], None)
                if res.get('b_after_install') != model:
                    hit = True
                    break
            print(json.dumps(res, indent=1)[:2000])
            print('REPRODUCED' if hit else 'NOT-REPRODUCED')
            return 1 if hit else 0
        res = w.send({'op': 'snapshot_transfer', **r['request']})
    finally:
        w.close()
    print(json.dumps(res, indent=1)[:3000])
    hit = res.get('b_after_install') != res.get('a_at_snapshot') or res.get('b_final') != res.get('a_final')
    print('REPRODUCED' if hit else 'NOT-REPRODUCED')
    return 1 if hit else 0
