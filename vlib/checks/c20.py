"""C20 Metadata replicas converge, including via snapshot transfer (part 1: Metadata snapshot/restore; part 2: Raft adapter, see octfam)."""
from . import c18

def run(tier, seed, budget):
    return c18.run(tier, seed, budget, prop='C20')

def replay(path):
    return c18.replay(path)
