"""C01 Consuming reads deliver every appended entry once, in order, byte-identical.
Oracle: lock-step sequential model over generated single-lifetime programs without peeks, faults or restarts."""
from . import seqfam

PROFILE = {'topics': 3, 'nops': (40, 140), 'op_w': [5, 2, 5, 0.2, 0, 0, 0], 'read_w': [4, 4, 0, 0, 0, 0, 0],
           'size_w': [5, 4, 1, 1, 0.15], 'max_bytes': 150_000_000}
KINDS = {'stream', 'panic', 'error', 'dead', 'progress'}
RULE = ('generated single-threaded programs (appends, batch appends, consuming read_next / batch_read_for_topic with aimed '
        'and boundary byte budgets) over 3 topics, payload sizes aimed at 128/256/2000/10 MiB; every returned entry compared '
        'with the sequential model; a program is non-trivial when it consumed entries and at least one topic rotated to a '
        'second block (measured through the layout accessor); distinct = distinct op lists')

def cls_filter(f):
    if f['kind'] == 'progress':
        return 'empty-while-unconsumed'
    return f['cls']

def run(tier, seed, budget):
    rep = seqfam.run_family('C01', tier, seed, budget, PROFILE, KINDS, n_quick=100, n_thorough=6000,
                            rule=RULE, required={'programs_with_rotation': 5, 'br_multi': 5, 'rn_consume': 50},
                            cls_filter=cls_filter, profiles=('debug', 'release'),
                            assumptions=['payload identity is decided on (length, crc32, first 24 bytes) of each returned entry'])
    return rep.finish()

def replay(path):
    return seqfam.replay_file(path)
