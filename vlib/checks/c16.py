"""C16 FD/io_uring and mmap backends behave identically: differential execution of the same program per backend in
separate processes, comparing the normalised transcript (results, error kinds, returned entries in order)."""
import copy, json, time
from .. import common
from ..common import Report, Violation, pmap, rng_for, fingerprint
from ..gen import gen_program
from . import seqfam

PROFILE = {'topics': 2, 'nops': (40, 120), 'op_w': [5, 2, 5, 1, 0.6, 0.4, 0.5], 'read_w': [4, 4, 1, 1, 0, 0, 1],
           'size_w': [6, 3, 1, 1, 0.05], 'max_bytes': 100_000_000, 'reject_w': 0.8}
RULE = ('each generated program (appends, batches, rejected operations, consuming / peeking / offset reads, counts, markers, reopen and '
        'process restart) is executed once with the FD backend and once with the mmap backend in separate processes; the two transcripts '
        '(per op: ok / error kind / panic, returned entries as (len, crc32, head), counts, marker states) must be equal; non-trivial = '
        'entries consumed and >= 2 blocks on a topic; distinct = distinct op lists')

def task_fn(task):
    rng = rng_for(task['seed'], 'C16', task['idx'])
    params = seqfam.pick_params(rng, {'backends': ['fd']})
    prog = gen_program(rng, PROFILE, params)
    seqfam.add_layout_probes(prog)
    outs = {}
    for be in ('fd', 'mmap'):
        p = copy.deepcopy(prog)
        p['instances'][1]['backend'] = be
        r = seqfam.run_prog(task['binary'], p, stop_on=('dead',))
        outs[be] = r
    a, b = outs['fd'], outs['mmap']
    div = None
    if a.dead or b.dead:
        if bool(a.dead) != bool(b.dead) or (a.dead and b.dead and (a.dead.code is None or b.dead.code is None)):
            div = {'kind': 'dead', 'fd': str(a.dead), 'mmap': str(b.dead), 'timeout': (a.dead and a.dead.code is None) or (b.dead and b.dead.code is None)}
    if div is None:
        for i, (x, y) in enumerate(zip(a.transcript, b.transcript)):
            if x != y:
                div = {'kind': 'result', 'transcript_index': i, 'fd': str(x)[:300], 'mmap': str(y)[:300]}
                break
        if div is None and len(a.transcript) != len(b.transcript):
            div = {'kind': 'length', 'fd': len(a.transcript), 'mmap': len(b.transcript)}
    st = seqfam.summarize(a, prog)
    return {'div': div, 'stats': st['stats'], 'features': prog.get('features', []), 'params': params, 'fp': fingerprint(prog['ops']),
            'prog': prog if div else None, 'tlen': len(a.transcript),
            'sample': {'params': params, 'nops': len(prog['ops']), 'first_ops': prog['ops'][:10], 'transcript_head': [str(x)[:80] for x in a.transcript[:6]]}}

def run(tier, seed, budget):
    rep = Report('C16', tier, seed, 'exploration')
    rep.rule = RULE
    rep.required = {'transcript_entries_compared': 2000, 'reopens': 10}
    rep.assumptions = ['both runs use the same build and fresh directories; the backend is selected with enable_fd_backend/disable_fd_backend before the first open of the process']
    binary = common.build('wsrv', 'debug')
    n = 60 if tier == 'quick' else 3000
    for t, res in pmap(task_fn, [{'binary': binary, 'seed': seed, 'idx': i} for i in range(n)], budget_s=budget):
        if isinstance(res, Exception):
            rep.add_inconclusive(repr(res)); continue
        rep.add_case(res['fp'], seqfam.nontrivial(res), res['sample'])
        rep.count('transcript_entries_compared', res['tlen'])
        rep.merge_cover({k: v for k, v in res['stats'].items() if isinstance(v, int)})
        d = res['div']
        if d:
            if d['kind'] == 'dead' and d.get('timeout'):
                rep.add_inconclusive('watchdog: ' + json.dumps(d)); continue
            rep.add_violation(Violation('C16', 'backend-divergence(' + d['kind'] + ')', d, res['features'],
                                        {'kind': 'diff-program', 'program': res['prog'], 'divergence': d}))
    return rep.finish()

def replay(path):
    with open(path) as f:
        rp = json.load(f)
    print(json.dumps(rp['replay']['divergence'], indent=1))
    return 1
