"""C14 A namespace key always maps to a private directory inside the data dir.
Monitor: open an instance for a key through each constructor, append one entry, then walk the file system: every file the
process created must live in a directory strictly inside the data directory (not the data dir itself, nothing outside)."""
import json, os, time
from .. import common
from ..common import Report, Violation, pmap, rng_for, fresh_dir, rmdir
from ..wsrv import Wsrv, Dead

ALPH = ['a', 'Z', '0', '-', '_', '.', '.', '/', '/', ' ', '\t', '\x00', 'é', '☃', '\\', ':', '~', '%']
FIXED = ['', '.', '..', '...', '../x', '/', '/abs', 'a/b', 'a/../..', './.', '..\x00', ' ', 'k', 'K.', '.hidden', '..a', 'a..', '\x00', '☃', '.. ', '~']
VIAS = ['builder', 'new_for_key', 'with_consistency_for_key', 'for_key']

def snapshot(root):
    out = set()
    for d, dirs, files in os.walk(root):
        for f in files:
            out.add(os.path.relpath(os.path.join(d, f), root))
    return out

def task_fn(task):
    key, via = task['key'], task['via']
    sand = fresh_dir('c14')          # sandbox: <sand>/outer/data is the data dir; escapes land in <sand>/outer or <sand>
    data = os.path.join(sand, 'outer', 'data')
    os.makedirs(data)
    res = {'key': key, 'via': via, 'bad': [], 'created': [], 'open': None}
    w = None
    try:
        env = {'WALRUS_DATA_DIR': data} if via != 'builder' else {}
        w = Wsrv(task['binary'], timeout=60, env=env, cwd=os.path.join(sand, 'outer'))
        req = {'op': 'open', 'h': 1, 'via': via, 'mode': 'strict', 'sched': 'none', 'backend': task['backend']}
        if '\x00' in key and via != 'builder':
            pass
        req['key'] = key
        if via == 'builder':
            req['dir'] = data
        r = w.send(req)
        res['open'] = 'ok' if r.get('ok') else ('panic' if 'panic' in r else 'err')
        if r.get('ok'):
            w.send({'op': 'append', 'h': 1, 't': 'x', 'tag': 1, 'len': 32})
            w.send({'op': 'read_next', 'h': 1, 't': 'x', 'cp': True})
            w.send({'op': 'mark_clean', 'h': 1, 't': 'x'})
            w.send({'op': 'drop', 'h': 1})
        elif 'panic' in r:
            res['bad'].append(('panic-on-open', r['panic'][:200]))
    except Dead as d:
        res['bad'].append(('process-died', str(d)))
    finally:
        if w:
            w.close()
    files = snapshot(sand)
    res['created'] = sorted(files)[:6]
    for f in files:
        parts = f.split(os.sep)
        # must be outer/data/<private dir>/.../file
        if parts[:2] != ['outer', 'data']:
            res['bad'].append(('file-outside-data-dir', f))
        elif len(parts) < 4:
            res['bad'].append(('file-directly-in-data-dir', f))
    rmdir(sand)
    return res

def run(tier, seed, budget):
    rep = Report('C14', tier, seed, 'exploration')
    rep.rule = ('keys = fixed hostile list (empty, dot-only, traversal, absolute, NUL, non-ASCII) plus random strings over all character classes; '
                'each key opened through builder / new_for_key / with_consistency_for_key / with_consistency_and_schedule_for_key in a sandbox '
                'directory tree, one append + read + marker, then every file created is located; non-trivial = open succeeded and files were created; '
                'distinct = distinct (key, constructor)')
    rep.required = {'opened': 20, 'files_seen': 40}
    binary = common.build('wsrv', 'debug')
    rng = rng_for(seed, 'C14')
    keys = list(FIXED)
    n = 60 if tier == 'quick' else 3000
    for _ in range(n):
        keys.append(''.join(rng.choice(ALPH) for _ in range(rng.randint(1, 6))))
    tasks = []
    for i, k in enumerate(keys):
        vias = VIAS if (i < len(FIXED) or tier == 'thorough') else [rng.choice(VIAS)]
        for v in vias:
            tasks.append({'binary': binary, 'key': k, 'via': v, 'backend': rng.choice(['fd', 'mmap'])})
    for t, res in pmap(task_fn, tasks, budget_s=budget):
        if isinstance(res, Exception):
            rep.add_inconclusive(repr(res)); continue
        rep.add_case(repr((res['key'], res['via'])), res['open'] == 'ok' and bool(res['created']), {'key': res['key'], 'via': res['via'], 'open': res['open'], 'files': res['created'][:3]})
        rep.count('opened', 1 if res['open'] == 'ok' else 0)
        rep.count('open_' + str(res['open']))
        rep.count('files_seen', len(res['created']))
        for cls, det in res['bad'][:2]:
            rep.add_violation(Violation('C14', cls, {'key': res['key'], 'via': res['via'], 'what': det}, [],
                                        {'kind': 'key', 'key': res['key'], 'via': res['via']}))
    return rep.finish()

def replay(path):
    with open(path) as f:
        print(f.read())
    return 1
