"""C10 With SyncEach, acknowledged appends and consumption survive power loss.

Offline checker over a recorded I/O trace. A generated workload runs under FsyncSchedule::SyncEach with the verif I/O trace
on; the driver brackets every API call with trace marks, so every I/O event is ordered against the call/return stamps.
For every trace prefix (event boundary) the checker reconstructs admissible post-power-loss directory states:
 * an I/O event is *complete* once a later event of the same thread class is recorded, otherwise it is in progress;
 * a WAL write is durable if it completed on an O_SYNC handle, or a completed flush/fsync of the same file follows it inside
   the prefix; every other issued write may or may not be kept (none / all / each single one / random subsets);
 * a WAL file exists for sure once the directory fsync of its creation completed, before that it may be missing (or empty);
 * the cursor index / marker file has the content of the last persist whose directory fsync completed; a persist whose rename
   was issued may or may not be visible, and if its tmp-file fsync had not completed the visible file may be empty.
Each state is materialised as sparse files (WAL bytes are taken from the final files; index/marker bytes are captured inline by
the hook) and opened by fresh processes: (a) without the cursor index - every append whose reply preceded the prefix must be read
back; (b) as reconstructed - in StrictlyAtOnce mode every consuming read that returned before the prefix is reflected.
"""
import json, os, shutil, time
from .. import common, crash
from ..common import Report, Violation, pmap, rng_for, fingerprint, fresh_dir, rmdir
from ..seq import SeqRunner, Halt
from ..gen import gen_program

PROFILE = {'topics': 2, 'nops': (10, 22), 'op_w': [5, 2.0, 4, 0, 0, 0, 0.8], 'read_w': [5, 2, 0.2, 0.2, 0, 0, 0],
           'size_w': [6, 1.0, 1.0, 0.5, 0], 'batch_w': [6, 1.5, 0, 0], 'max_bytes': 40_000_000, 'no_final': True}
TRACED_OPS = ('open', 'append', 'batch', 'read_next', 'batch_read', 'mark_clean', 'mark_dirty', 'drop')

class TracingRunner(SeqRunner):
    """brackets every API request with trace marks and snapshots the model after every acknowledged op"""
    def __init__(self, *a, **k):
        super().__init__(*a, **k)
        self.opseq = 0
        self.snapshots = []     # (op number, request, model snapshot after the reply)
    def flush_snapshot(self):
        if getattr(self, 'pending_req', None) and 1 in self.inst:
            n, req = self.pending_req
            self.snapshots.append((n, req, crash.model_of(self.inst[1])))
        self.pending_req = None
    def call(self, req):
        if req.get('op') in TRACED_OPS and self.w is not None:
            # the model already reflects the previous request by the time the next one is issued
            self.flush_snapshot()
            self.opseq += 1
            n = self.opseq
            super().call({'op': 'mark', 'text': 'call:%d' % n})
            r = super().call(req)
            super().call({'op': 'mark', 'text': 'ret:%d' % n})
            self.pending_req = (n, req)
            return r
        return super().call(req)

def record(binary, prog, d):
    for p in prog['instances'].values():
        p['dir'] = d
    sr = TracingRunner(binary, timeout=180.0, stop_on=('stream', 'open', 'dead'))
    trace = []
    def on_spawn(s):
        s.w.call('trace_on', on=True)
    def on_close(s):
        s.flush_snapshot()
        s.do_drop(1)
        trace.extend(s.w.call('take_trace').get('trace', []))
    sr.on_spawn, sr.on_close = on_spawn, on_close
    sr.run(prog)
    return sr, trace

def analyse(trace):
    """index the trace: completion flags, per-file writes / syncs, persists of the index and marker files, file creations"""
    last_of_class = {}
    complete_after = [None] * len(trace)     # index of the next event of the same class (the event is complete from that prefix on)
    for i, e in enumerate(trace):
        c = e['class']       # trace marks are recorded by the API thread itself: a mark completes the API thread's previous I/O event
        if c in last_of_class:
            complete_after[last_of_class[c]] = i
        last_of_class[c] = i
    # the write events of an io_uring batch are recorded before the submission: none of them has happened before the
    # uring_submit event itself is complete
    main = [i for i, e in enumerate(trace) if e['class'] == 'main' and e['kind'] != 'mark']
    for pos, i in enumerate(main):
        if trace[i]['kind'] == 'uring_submit':
            j = pos - 1
            while j >= 0 and trace[main[j]]['kind'] == 'write' and main[pos] - main[j] <= (pos - j) + 2:
                complete_after[main[j]] = complete_after[i]
                j -= 1
    return complete_after

def states_at(trace, complete_after, t, rng, max_choices):
    """admissible post-power-loss states for the prefix trace[:t]; yields dicts {files: {path: [writes kept]}|None, index: bytes|None, marker: ...}"""
    def done(i):
        return complete_after[i] is not None and complete_after[i] < t
    osync = {}
    files = {}          # path -> {'created': i, 'dirsync': i|None, 'filesync': i|None, 'writes': [(i, off, len)], 'syncs': [i]}
    persists = {}       # final path -> list of {'bytes', 'tmp_write': i, 'fsync': i, 'rename': i, 'dirsync': i}
    cur_persist = {}
    dirsyncs = {}
    for i, e in enumerate(trace[:t]):
        k, p = e['kind'], e['path']
        if k == 'create':
            files[p] = {'created': i, 'dirsync': None, 'filesync': None, 'setlen': None, 'writes': [], 'syncs': []}
        elif k == 'set_len':
            if p in files:
                files[p]['setlen'] = i
        elif k == 'open':
            osync[p] = bool(e['off'])
        elif k == 'write':
            f = files.setdefault(p, {'created': -1, 'dirsync': -1, 'filesync': -1, 'setlen': -1, 'writes': [], 'syncs': []})
            f['writes'].append((i, e['off'], e['len'], osync.get(p, False)))
        elif k in ('flush', 'bg_fsync'):
            if p in files:
                files[p]['syncs'].append(i)
        elif k == 'fsync':
            if p.endswith('.tmp'):
                final = p[:-4]
                if final in cur_persist:
                    cur_persist[final]['fsync'] = i
            elif p in files:
                if files[p]['filesync'] is None:
                    files[p]['filesync'] = i
                files[p]['syncs'].append(i)
        elif k == 'tmp_write':
            final = p[:-4] if p.endswith('.tmp') else p
            cur_persist[final] = {'bytes': bytes.fromhex(e.get('hex', '')), 'tmp_write': i, 'fsync': None, 'rename': None, 'dirsync': None}
            persists.setdefault(final, []).append(cur_persist[final])
        elif k == 'rename':
            if p in cur_persist:
                cur_persist[p]['rename'] = i
        elif k == 'fsync_dir':
            dirsyncs.setdefault(p.rstrip('/'), []).append(i)
    def dir_durable(path, ev):
        """a directory-entry change made by event `ev` (create / rename) is durable once a directory fsync that was issued after `ev` completed has completed"""
        if ev is None:
            return False
        if ev < 0:
            return True
        ca = complete_after[ev]
        return any(ca is not None and ca <= ds and done(ds) for ds in dirsyncs.get(os.path.dirname(path), []))
    for p, f in files.items():
        f['dirsync'] = -1 if f['created'] == -1 else (0 if dir_durable(p, f['created']) else None)
    for final, lst in persists.items():
        for cp in lst:
            cp['dirsync'] = 0 if dir_durable(final, cp['rename']) else None
    done_or_flag = lambda v: v == -1 or v == 0 or (v is not None and done(v))
    # ---- WAL files
    sure, maybe = {}, []
    for p, f in files.items():
        exists_sure = f['dirsync'] in (-1, 0)
        kept = []
        for (i, off, ln, sync_handle) in f['writes']:
            durable = done(i) and (sync_handle or any(s > i and done(s) for s in f['syncs']))
            if durable:
                kept.append((off, ln))
            else:
                maybe.append((p, off, ln))
        sure[p] = {'exists_sure': exists_sure, 'kept': kept, 'sized': f['setlen'] == -1 or (f['filesync'] is not None and done(f['filesync']))}
    # ---- index / marker versions
    versions = {}
    for final, lst in persists.items():
        cand = [None]        # None = file absent
        for cp in lst:
            if cp['dirsync'] == 0:
                cand = [cp['bytes']]                 # durably replaced: older versions are gone
            elif cp['rename'] is not None:
                if cp['fsync'] is not None and done(cp['fsync']):
                    cand.append(cp['bytes'])
                else:
                    cand += [cp['bytes'], b'']
        versions[final] = cand
    # ---- enumerate a bounded number of combinations
    choices = []
    subsets = [[], list(range(len(maybe)))]
    for j in range(len(maybe)):
        subsets.append([j])
    for _ in range(4):
        if maybe:
            subsets.append(sorted(rng.sample(range(len(maybe)), rng.randint(1, len(maybe)))))
    seen = set()
    usub = []
    for s in subsets:
        if tuple(s) not in seen:
            seen.add(tuple(s)); usub.append(s)
    if len(usub) > max_choices:
        usub = usub[:2] + rng.sample(usub[2:], max_choices - 2)
    vkeys = sorted(versions)
    for si, s in enumerate(usub):
        st = {'files': {}, 'versions': {}}
        keep_maybe = [maybe[j] for j in s]
        for p, info in sure.items():
            present = info['exists_sure'] or (si % 2 == 1) or any(m[0] == p for m in keep_maybe)
            if not present:
                st['files'][p] = None
                continue
            st['files'][p] = {'writes': info['kept'] + [(o, l) for (pp, o, l) in keep_maybe if pp == p], 'sized': info['sized'] or (si % 3 != 2)}
        for vk in vkeys:
            cand = versions[vk]
            st['versions'][vk] = cand[(si + len(vk)) % len(cand)] if si > 0 else cand[-1 if len(cand) == 1 else 0]
        st['n_maybe'] = len(maybe)
        st['kept_maybe'] = len(s)
        choices.append(st)
    # always include the "latest candidate of every version" state as well
    if any(len(c) > 1 for c in versions.values()) and choices:
        st = dict(choices[0]); st = {'files': choices[0]['files'], 'versions': {vk: versions[vk][-1] for vk in vkeys}, 'n_maybe': len(maybe), 'kept_maybe': 0}
        choices.append(st)
    return choices

def materialise(st, final_dir, root, out_dir):
    """build the directory of one reconstructed state; WAL bytes come from the final files of the recorded run"""
    MAXF = 1 << 30
    for p, info in st['files'].items():
        rel = os.path.relpath(p, root)
        dst = os.path.join(out_dir, rel)
        os.makedirs(os.path.dirname(dst), exist_ok=True)
        if info is None:
            continue
        with open(dst, 'wb') as fo:
            if info['sized']:
                fo.truncate(MAXF)
            with open(os.path.join(final_dir, rel), 'rb') as fi:
                for off, ln in info['writes']:
                    pos = 0
                    while pos < ln:
                        n = min(ln - pos, 8 << 20)
                        buf = os.pread(fi.fileno(), n, off + pos)
                        if not buf:
                            break
                        os.pwrite(fo.fileno(), buf, off + pos)
                        pos += len(buf)
    for p, b in st['versions'].items():
        if b is None:
            continue
        rel = os.path.relpath(p, root)
        dst = os.path.join(out_dir, rel)
        os.makedirs(os.path.dirname(dst), exist_ok=True)
        with open(dst, 'wb') as fo:
            fo.write(b)

def workload(task):
    rng = rng_for(task['seed'], 'C10', task['idx'])
    params = {'mode': rng.choice(['strict', 'strict', {'alo': 2}]), 'sched': 'sync', 'backend': rng.choice(['fd', 'mmap']), 'via': 'builder', 'key': 'k'}
    family = 'rollover' if task['idx'] % 4 == 1 else 'generated'
    if family == 'rollover':
        # fill the first 1 GiB segment's 100 blocks with one small append per topic, so that the next allocations open a NEW segment file
        # inside the recorded window (first entries of a new file, file creation, directory sync)
        params['backend'] = 'mmap' if task['idx'] % 8 == 1 else rng.choice(['fd', 'mmap'])
        ops = [['open', {'h': 1}]]
        tag = 0
        ntop = rng.randint(100, 104)
        for i in range(ntop):
            tag += 1
            ops.append(['append', {'t': 't%03d' % i, 'tag': tag, 'len': rng.choice([16, 100, 300, 5000])}])
        # an existing topic outgrows its block now: the writer has to move to a block of a NEW segment file
        big = 't%03d' % rng.randrange(0, ntop)
        for ln in ([6_000_000, 5_000_000] if rng.random() < 0.6 else [10_400_000]):
            tag += 1
            ops.append(['append', {'t': big, 'tag': tag, 'len': ln}])
        for _ in range(rng.randint(1, 4)):
            tag += 1
            t = rng.choice([big, 't%03d' % rng.randrange(max(ntop - 6, 0), ntop)])
            if rng.random() < 0.3:
                ops.append(['batch', {'t': t, 'entries': [[tag, 200], [tag + 1, 64]]}]); tag += 1
            elif rng.random() < 0.3:
                ops.append(['rn', {'t': t, 'cp': True}])
            else:
                ops.append(['append', {'t': t, 'tag': tag, 'len': rng.choice([100, 6_000_000])}])
        prog = {'instances': {1: dict(params)}, 'ops': ops, 'features': ['file-rollover']}
    else:
        prog = gen_program(rng, PROFILE, params)
    rec_dir = fresh_dir('c10rec')
    out = {'findings': [], 'stats': {}, 'params': params, 'inconclusive': None, 'sample': None}
    def stat(k, n=1):
        out['stats'][k] = out['stats'].get(k, 0) + n
    try:
        sr, trace = record(task['binary'], prog, rec_dir)
        if sr.findings or sr.dead:
            out['inconclusive'] = 'recorded run disagrees with the sequential model: %r' % [f['cls'] for f in sr.findings][:3]
            return out
        complete_after = analyse(trace)
        marks = {e['path']: i for i, e in enumerate(trace) if e['kind'] == 'mark'}
        snaps = sr.snapshots
        n_events = len(trace)
        stat('trace_events', n_events)
        stat('workloads:' + family)
        for k in set(e['kind'] for e in trace):
            stat('trace:' + k, sum(1 for e in trace if e['kind'] == k))
        # overlapping WAL writes would make "bytes from the final file" unsound
        ws = sorted((e['path'], e['off'], e['len']) for e in trace if e['kind'] == 'write')
        for a, b in zip(ws, ws[1:]):
            if a[0] == b[0] and a[1] + a[2] > b[1]:
                stat('overlapping_writes')
        prefixes = list(range(1, n_events + 1))
        chunk = task.get('chunk', 0)
        if chunk:
            # further samples of the same workload's prefixes (thorough tier splits a workload into several short tasks)
            rng = rng_for(task['seed'], 'C10chunk', task['idx'], chunk)
            prefixes = sorted(rng.sample(prefixes, min(len(prefixes), task['max_prefixes'])))
        elif len(prefixes) > task['max_prefixes']:
            # aimed sampling: the prefixes right after a file creation (first entries of a new segment) are always included
            creates = [i for i, e in enumerate(trace) if e['kind'] == 'create' and i > 10]
            aimed = sorted({p for c in creates for p in range(c + 1, min(c + 26, n_events + 1))})
            if len(aimed) > task['max_prefixes'] // 2:
                aimed = sorted(rng.sample(aimed, task['max_prefixes'] // 2))
            rest = [p for p in prefixes if p not in set(aimed)]
            prefixes = sorted(set(aimed) | set(rng.sample(rest, max(task['max_prefixes'] - len(aimed), 1))))
            stat('prefixes_aimed_after_file_creation', len(aimed))
        if task.get('only_prefix'):
            prefixes = [p for p in (task['only_prefix'],) if p <= n_events]
        topics = sorted(sr.inst[1].topics)
        out['sample'] = {'params': params, 'ops': len(prog['ops']), 'trace_events': n_events, 'first_events': [(e['class'], e['kind'], os.path.basename(e['path']), e['off'], e['len']) for e in trace[:14]]}
        for t in prefixes:
            # acknowledged = ops whose ret mark lies inside the prefix; in flight = the op whose call mark does but whose ret mark does not
            M, req = {}, {}
            for n, rq, snap in snaps:
                r = marks.get('ret:%d' % n)
                c = marks.get('call:%d' % n)
                if r is not None and r < t:
                    M = snap
                elif c is not None and c < t:
                    req = rq
                    break
            for st_i, st in enumerate(states_at(trace, complete_after, t, rng, task['max_choices'])):
                sd = fresh_dir('c10st')
                try:
                    materialise(st, rec_dir, rec_dir, sd)
                    d2 = fresh_dir('c10full')
                    crash.sparse_copy_tree(sd, d2)
                    for root, _dirs, fl in os.walk(d2):
                        for f in fl:
                            if f.startswith('read_offset_idx'):
                                os.remove(os.path.join(root, f))
                    tl = sorted(set(topics) | ({req.get('t')} if req.get('t') else set()))
                    full = crash.recover(task['binary'], d2, params, tl, 'rn')
                    rmdir(d2)
                    asleft = crash.recover(task['binary'], sd, params, tl, 'rn')
                    F, n_cmp = crash.judge(M, params, req, tl, full, asleft, crash.used_br_of(prog['ops']))
                finally:
                    rmdir(sd)
                stat('states')
                stat('recovered_entries_compared', n_cmp)
                if st['n_maybe']:
                    stat('states_with_unsynced_writes')
                stat('prefix_in_op:' + (req.get('op') or 'idle'))
                for f in F:
                    if f['prop'] == 'C08':
                        continue        # a batch in flight at the power loss is not acknowledged
                    if f['prop'] == 'C09' and params['mode'] != 'strict':
                        continue        # the consumption part of C10 is stated for StrictlyAtOnce
                    cls = {'acked-missing': 'acked-append-lost', 'redelivered-after-crash(strict)': 'acked-consume-lost'}.get(f['cls'], f['cls'])
                    out['findings'].append({'cls': cls, 'detail': {**f['detail'], 'prefix': t, 'event_before': [trace[t - 1]['class'], trace[t - 1]['kind'], os.path.basename(trace[t - 1]['path'])],
                                                                   'state': st_i, 'unsynced_writes': st['n_maybe'], 'kept': st['kept_maybe']},
                                            'replay': {'prefix': t, 'state': st_i}})
            stat('prefixes')
        return out
    except Halt:
        out['inconclusive'] = 'halt'
        return out
    except Exception as e:
        import traceback
        out['inconclusive'] = 'harness: %r %s' % (e, traceback.format_exc()[-400:])
        return out
    finally:
        rmdir(rec_dir)

RULE = ('workloads of 10-22 operations (appends, batch appends, read_next / batch reads, clean/dirty markers; FD and mmap backends; StrictlyAtOnce and AtLeastOnce) '
        'run under FsyncSchedule::SyncEach with the verif I/O trace (writes with offset/length, flush / fsync / directory fsync, create / set_len, index and marker '
        'tmp-write with bytes / fsync / rename, O_SYNC flag of every handle) bracketed by call/return marks; for every trace prefix (sampled down to the tier budget) '
        'up to 8 (quick) / 32 (thorough) admissible post-power-loss states are reconstructed (un-synced writes: none / all / each single one / random subsets; files '
        'whose creation was not directory-synced present or absent; un-synced renames old / new / empty) and opened by fresh processes; oracle: every append '
        'acknowledged before the prefix is read back in order and byte-identical (full-log copy), and in StrictlyAtOnce mode the consumer resumes exactly after the '
        'last consuming read that returned before the prefix. non-trivial = reconstructed state of a prefix with >= 1 acknowledged entry; distinct = distinct (workload, prefix, state)')

def run(tier, seed, budget):
    q = tier == 'quick'
    rep = Report('C10', tier, seed, 'fault_enumeration')
    rep.rule = RULE
    rep.required = {'workloads': 6, 'states': 150, 'prefixes': 80, 'trace:flush': 10, 'trace:rename': 10, 'trace:fsync_dir': 10, 'recovered_entries_compared': 2000, 'workloads:rollover': 1, 'prefixes_aimed_after_file_creation': 5}
    rep.assumptions = ['power-loss model at write granularity: an un-synced positional write / memcpy is kept entirely or not at all; completed O_SYNC writes and everything '
                       'covered by a completed fsync/msync are durable; directory entries need a directory fsync', 'bytes of WAL writes are taken from the final file '
                       '(the checker counts overlapping writes; rolled-back headers are zeros either way)', 'io_uring batch writes go through O_SYNC handles under SyncEach']
    binary = common.build('wsrv', 'debug')
    if q:
        tasks = [{'binary': binary, 'seed': seed, 'idx': i, 'max_prefixes': 14, 'max_choices': 3} for i in range(9)]
    else:
        tasks = [{'binary': binary, 'seed': seed, 'idx': i, 'chunk': c, 'max_prefixes': 14, 'max_choices': 8} for c in range(5) for i in range(150)]
    for t, res in pmap(workload, tasks, budget_s=budget):
        if isinstance(res, Exception):
            rep.add_inconclusive(repr(res)); continue
        if res['inconclusive']:
            rep.add_inconclusive(res['inconclusive']); continue
        if not t.get('chunk'):
            rep.count('workloads')
        rep.merge_cover(res['stats'])
        rep.count('cfg:' + json.dumps(res['params']['mode']) + '/' + res['params']['backend'])
        n = res['stats'].get('states', 0)
        for j in range(n):
            rep.add_case(fingerprint([t['idx'], t.get('chunk', 0), j]), True, res['sample'] if j == 0 else None)
        for f in res['findings']:
            rep.add_violation(Violation('C10', f['cls'], f['detail'], ['backend:' + res['params']['backend']],
                                        {'kind': 'c10-state', 'seed': t['seed'], 'idx': t['idx'], **f['replay'], 'finding': f}))
    return rep.finish()

def replay(path):
    rp = json.load(open(path))
    r = rp['replay']
    binary = common.build('wsrv', 'debug')
    res = workload({'binary': binary, 'seed': r['seed'], 'idx': r['idx'], 'max_prefixes': 10 ** 6, 'max_choices': 12, 'only_prefix': r.get('prefix')})
    fs = [f for f in res['findings'] if f['cls'] == rp['class']]
    print(json.dumps(fs[:3], indent=1, default=str)[:3000])
    print('REPRODUCED' if fs else 'NOT-REPRODUCED')
    return 1 if fs else 0
