//! wmiri: open-and-drain worker for Miri (C11). Miri cannot execute io_uring_setup, file-backed mmap or O_SYNC opens, so the
//! instance is opened with FD storage and NoFsync, and after open the FD flag is flipped so that batch reads take the
//! positional-I/O branch. A 16-aligning global allocator reproduces what glibc malloc gives every production run (rkyv's
//! alignment assertion otherwise fires on undamaged Vec<u8> buffers).
use std::alloc::{GlobalAlloc, Layout, System};
struct Align16;
unsafe impl GlobalAlloc for Align16 {
    unsafe fn alloc(&self, l: Layout) -> *mut u8 {
        System.alloc(Layout::from_size_align_unchecked(l.size(), l.align().max(16)))
    }
    unsafe fn dealloc(&self, p: *mut u8, l: Layout) {
        System.dealloc(p, Layout::from_size_align_unchecked(l.size(), l.align().max(16)))
    }
    unsafe fn realloc(&self, p: *mut u8, l: Layout, n: usize) -> *mut u8 {
        System.realloc(p, Layout::from_size_align_unchecked(l.size(), l.align().max(16)), n)
    }
    unsafe fn alloc_zeroed(&self, l: Layout) -> *mut u8 {
        System.alloc_zeroed(Layout::from_size_align_unchecked(l.size(), l.align().max(16)))
    }
}
#[global_allocator]
static A: Align16 = Align16;
use walrus_rust::*;

fn show(tag: &str, topic: &str, data: &[u8]) {
    // (len, first 24 bytes as hex): enough for the provenance oracle (payloads carry their tag and length up front)
    let head: String = data.iter().take(24).map(|b| format!("{:02x}", b)).collect();
    println!("E {} {} {} {}", tag, topic, data.len(), head);
}

fn main() {
    std::env::set_var("WALRUS_QUIET", "1");
    let a: Vec<String> = std::env::args().collect();
    let dir = a[1].clone();
    let mode = a.get(2).map(|s| s.as_str()).unwrap_or("drain");
    let topics: Vec<String> = a.iter().skip(3).cloned().collect();
    enable_fd_backend();
    let open = || Walrus::builder().data_dir(dir.clone().into()).key("k").fsync_schedule(FsyncSchedule::NoFsync).build();
    if mode == "make" {
        // tiny base state: a few entries on each topic, a consumed prefix, a clean marker
        let w = open().unwrap();
        let mut tag = 0u64;
        for t in topics.iter() {
            for len in [40usize, 0, 130, 300, 17] {
                tag += 1;
                let mut v = Vec::new();
                v.extend_from_slice(&tag.to_le_bytes());
                v.extend_from_slice(&(len as u64).to_le_bytes());
                while v.len() < len {
                    v.push((tag as u8).wrapping_add(v.len() as u8));
                }
                v.truncate(len);
                w.append_for_topic(t, &v).unwrap();
            }
            let _ = w.read_next(t, true);
            w.mark_topic_clean(t);
        }
        drop(w);
        println!("MADE");
        return;
    }
    let w = match open() {
        Ok(w) => w,
        Err(e) => {
            println!("OPENERR {:?}", e.kind());
            return;
        }
    };
    println!("OPENED");
    for t in topics.iter() {
        println!("C {} {}", t, w.get_topic_entry_count(t));
        for _ in 0..3 {
            match w.read_next(t, false) {
                Ok(Some(e)) => show("peek", t, &e.data),
                Ok(None) => {}
                Err(e) => println!("ERR rn {:?}", e.kind()),
            }
            match w.read_next(t, true) {
                Ok(Some(e)) => show("rn", t, &e.data),
                Ok(None) => break,
                Err(e) => println!("ERR rn {:?}", e.kind()),
            }
        }
        disable_fd_backend();
        for budget in [0usize, 300, 1 << 20] {
            match w.batch_read_for_topic(t, budget, true, None) {
                Ok(es) => {
                    for e in es.iter() {
                        show("br", t, &e.data);
                    }
                }
                Err(e) => println!("ERR br {:?}", e.kind()),
            }
        }
        match w.batch_read_for_topic(t, 1 << 20, false, Some(256)) {
            Ok(es) => println!("O {} {}", t, es.len()),
            Err(e) => println!("ERR off {:?}", e.kind()),
        }
        enable_fd_backend();
        println!("M {} {}", t, w.topic_is_clean(t));
    }
    println!("DONE");
}
