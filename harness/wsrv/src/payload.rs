//! Regenerable payloads: P(tag, len) = first `len` bytes of tag(8 LE) ‖ len(8 LE) ‖ pattern(tag).
use serde_json::{json, Value};

pub fn payload(tag: u64, len: usize) -> Vec<u8> {
    let mut v = Vec::with_capacity(len.max(16));
    v.extend_from_slice(&tag.to_le_bytes());
    v.extend_from_slice(&(len as u64).to_le_bytes());
    if len > 16 {
        let m = (tag.wrapping_mul(2654435761) >> 7) as u8;
        let base: Vec<u8> = (0..251u32).map(|j| m.wrapping_add((3 * j) as u8)).collect();
        while v.len() < len {
            let take = (len - v.len()).min(base.len());
            v.extend_from_slice(&base[..take]);
        }
    }
    v.truncate(len);
    v
}

fn crc_table() -> &'static [u32; 256] {
    static T: std::sync::OnceLock<[u32; 256]> = std::sync::OnceLock::new();
    T.get_or_init(|| {
        let mut t = [0u32; 256];
        for i in 0..256u32 {
            let mut c = i;
            for _ in 0..8 {
                c = if c & 1 != 0 { 0xEDB88320 ^ (c >> 1) } else { c >> 1 };
            }
            t[i as usize] = c;
        }
        t
    })
}
pub fn crc32(data: &[u8]) -> u32 {
    let t = crc_table();
    let mut c = 0xFFFF_FFFFu32;
    for &b in data {
        c = t[((c ^ b as u32) & 0xff) as usize] ^ (c >> 8);
    }
    c ^ 0xFFFF_FFFF
}
pub fn hex(b: &[u8]) -> String {
    let mut s = String::with_capacity(b.len() * 2);
    for x in b {
        s.push_str(&format!("{:02x}", x));
    }
    s
}
/// What crosses the pipe for a returned entry: length, crc32 and the first 24 bytes.
pub fn summary(data: &[u8]) -> Value {
    json!([data.len(), crc32(data), hex(&data[..data.len().min(24)])])
}
