//! wsrv: op server over the real walrus-rust engine (feature "verif").
//! JSON lines on stdin, one reply line (prefixed '@') on stdout per request.
//! No checking logic lives here: oracles are in the python driver.
use serde_json::{json, Value};
use std::collections::HashMap;
use std::io::{BufRead, Write};
use std::panic::{catch_unwind, AssertUnwindSafe};
use std::sync::atomic::{AtomicU64, Ordering};
use std::sync::{Arc, Condvar, Mutex, RwLock};
use walrus_rust::wal::verif;
use walrus_rust::{FsyncSchedule, ReadConsistency, Walrus};

mod payload;
use payload::{payload, summary};

struct State {
    handles: RwLock<HashMap<u64, Arc<Walrus>>>,
    stamp: AtomicU64,
}

fn mode_of(v: &Value) -> ReadConsistency {
    match v {
        Value::String(s) if s == "strict" => ReadConsistency::StrictlyAtOnce,
        Value::Object(o) => ReadConsistency::AtLeastOnce {
            persist_every: o.get("alo").and_then(|x| x.as_u64()).unwrap_or(1) as u32,
        },
        _ => ReadConsistency::StrictlyAtOnce,
    }
}
fn sched_of(v: &Value) -> FsyncSchedule {
    let s = v.as_str().unwrap_or("none");
    if s == "sync" {
        FsyncSchedule::SyncEach
    } else if let Some(ms) = s.strip_prefix("ms:") {
        FsyncSchedule::Milliseconds(ms.parse().unwrap_or(200))
    } else {
        FsyncSchedule::NoFsync
    }
}
fn err_json(e: &std::io::Error) -> Value {
    json!({"err": format!("{:?}", e.kind()), "msg": e.to_string()})
}

fn open_instance(req: &Value) -> std::io::Result<Walrus> {
    match req["backend"].as_str() {
        Some("mmap") => walrus_rust::disable_fd_backend(),
        Some("fd") => walrus_rust::enable_fd_backend(),
        _ => {}
    }
    let mode = mode_of(&req["mode"]);
    let sched = sched_of(&req["sched"]);
    let key = req["key"].as_str();
    let via = req["via"].as_str().unwrap_or("builder");
    match via {
        "builder" => {
            let mut b = Walrus::builder().consistency(mode).fsync_schedule(sched);
            if let Some(d) = req["dir"].as_str() {
                b = b.data_dir(d.into());
            }
            if let Some(k) = key {
                b = b.key(k);
            }
            b.build()
        }
        "new_for_key" => Walrus::new_for_key(key.unwrap_or("")),
        "with_consistency_for_key" => Walrus::with_consistency_for_key(key.unwrap_or(""), mode),
        "for_key" => Walrus::with_consistency_and_schedule_for_key(key.unwrap_or(""), mode, sched),
        "new" => Walrus::new(),
        "with_consistency" => Walrus::with_consistency(mode),
        "default" => Walrus::with_consistency_and_schedule(mode, sched),
        _ => Err(std::io::Error::new(std::io::ErrorKind::InvalidInput, "bad via")),
    }
}

fn get(st: &State, req: &Value) -> Option<Arc<Walrus>> {
    let h = req["h"].as_u64().unwrap_or(0);
    st.handles.read().unwrap().get(&h).cloned()
}

fn exec(st: &State, req: &Value) -> Value {
    let op = req["op"].as_str().unwrap_or("");
    match op {
        "open" => {
            let h = req["h"].as_u64().unwrap_or(0);
            match open_instance(req) {
                Ok(w) => {
                    st.handles.write().unwrap().insert(h, Arc::new(w));
                    json!({"ok": true})
                }
                Err(e) => err_json(&e),
            }
        }
        "drop" => {
            let h = req["h"].as_u64().unwrap_or(0);
            let w = st.handles.write().unwrap().remove(&h);
            let had = w.is_some();
            drop(w);
            json!({"ok": had})
        }
        "setenv" => {
            let k = req["k"].as_str().unwrap_or("");
            match req["v"].as_str() {
                Some(v) => std::env::set_var(k, v),
                None => std::env::remove_var(k),
            }
            json!({"ok": true})
        }
        "chdir" => match std::env::set_current_dir(req["dir"].as_str().unwrap_or(".")) {
            Ok(()) => json!({"ok": true}),
            Err(e) => err_json(&e),
        },
        "append" => {
            let Some(w) = get(st, req) else { return json!({"err":"nohandle"}) };
            let data = payload(req["tag"].as_u64().unwrap_or(0), req["len"].as_u64().unwrap_or(0) as usize);
            match w.append_for_topic(req["t"].as_str().unwrap_or(""), &data) {
                Ok(()) => json!({"ok": true}),
                Err(e) => err_json(&e),
            }
        }
        "batch" => {
            let Some(w) = get(st, req) else { return json!({"err":"nohandle"}) };
            let mut bufs: Vec<Vec<u8>> = Vec::new();
            let mut idx: Vec<usize> = Vec::new();
            if let Some(arr) = req["entries"].as_array() {
                for e in arr {
                    let tag = e[0].as_u64().unwrap_or(0);
                    let len = e[1].as_u64().unwrap_or(0) as usize;
                    let rep = e.get(2).and_then(|x| x.as_u64()).unwrap_or(1) as usize;
                    bufs.push(payload(tag, len));
                    for _ in 0..rep {
                        idx.push(bufs.len() - 1);
                    }
                }
            }
            let refs: Vec<&[u8]> = idx.iter().map(|&i| bufs[i].as_slice()).collect();
            match w.batch_append_for_topic(req["t"].as_str().unwrap_or(""), &refs) {
                Ok(()) => json!({"ok": true}),
                Err(e) => err_json(&e),
            }
        }
        "read_next" => {
            let Some(w) = get(st, req) else { return json!({"err":"nohandle"}) };
            match w.read_next(req["t"].as_str().unwrap_or(""), req["cp"].as_bool().unwrap_or(true)) {
                Ok(Some(e)) => json!({"ok": true, "e": [summary(&e.data)]}),
                Ok(None) => json!({"ok": true, "e": []}),
                Err(e) => err_json(&e),
            }
        }
        "batch_read" => {
            let Some(w) = get(st, req) else { return json!({"err":"nohandle"}) };
            let max = req["max"].as_u64().unwrap_or(0) as usize;
            let start = req.get("start").and_then(|x| x.as_u64());
            match w.batch_read_for_topic(
                req["t"].as_str().unwrap_or(""),
                max,
                req["cp"].as_bool().unwrap_or(true),
                start,
            ) {
                Ok(es) => {
                    let v: Vec<Value> = es.iter().map(|e| summary(&e.data)).collect();
                    json!({"ok": true, "e": v})
                }
                Err(e) => err_json(&e),
            }
        }
        "count" => {
            let Some(w) = get(st, req) else { return json!({"err":"nohandle"}) };
            json!({"ok": true, "n": walrus_rust::topic_entry_count(&w, req["t"].as_str().unwrap_or(""))})
        }
        "counts" => {
            let Some(w) = get(st, req) else { return json!({"err":"nohandle"}) };
            json!({"ok": true, "m": walrus_rust::topic_entry_counts(&w)})
        }
        "size" => {
            let Some(w) = get(st, req) else { return json!({"err":"nohandle"}) };
            json!({"ok": true, "n": w.get_topic_size(req["t"].as_str().unwrap_or(""))})
        }
        "mark_clean" => {
            let Some(w) = get(st, req) else { return json!({"err":"nohandle"}) };
            w.mark_topic_clean(req["t"].as_str().unwrap_or(""));
            json!({"ok": true})
        }
        "mark_dirty" => {
            let Some(w) = get(st, req) else { return json!({"err":"nohandle"}) };
            w.mark_topic_dirty(req["t"].as_str().unwrap_or(""));
            json!({"ok": true})
        }
        "is_clean" => {
            let Some(w) = get(st, req) else { return json!({"err":"nohandle"}) };
            json!({"ok": true, "clean": w.topic_is_clean(req["t"].as_str().unwrap_or(""))})
        }
        // ---- hook controls
        "failpoint" => {
            match req["kind"].as_str() {
                Some(k) => verif::arm_failpoint(k, req["nth"].as_i64().unwrap_or(0)),
                None => verif::disarm_failpoint(),
            }
            json!({"ok": true})
        }
        "cqe" => {
            verif::arm_cqe_override(req["idx"].as_i64().unwrap_or(-1), req["res"].as_i64().unwrap_or(-5));
            json!({"ok": true})
        }
        "fail_hits" => json!({"ok": true, "n": verif::failpoint_hits()}),
        "crash_at" => {
            verif::set_crash_at(req["class"].as_u64().unwrap_or(0) as usize, req["k"].as_u64().unwrap_or(0));
            json!({"ok": true})
        }
        "batch_crash" => {
            let keep: Vec<usize> = req["keep"]
                .as_array()
                .map(|a| a.iter().filter_map(|x| x.as_u64()).map(|x| x as usize).collect())
                .unwrap_or_default();
            verif::arm_batch_crash(req["nth"].as_u64().unwrap_or(0), keep);
            json!({"ok": true})
        }
        "events" => json!({"ok": true, "main": verif::event_count(0), "clean": verif::event_count(1),
                           "bg": verif::event_count(2), "batches": verif::batches_seen(),
                           "bg_cycles": verif::bg_cycles(), "reclaim_passes": verif::bg_reclaim_passes()}),
        "trace_on" => {
            verif::set_trace(req["on"].as_bool().unwrap_or(true));
            json!({"ok": true})
        }
        "mark" => {
            verif::trace_mark("mark", req["text"].as_str().unwrap_or(""));
            json!({"ok": true})
        }
        "take_trace" => {
            let tr = verif::take_trace();
            let v: Vec<Value> = tr
                .iter()
                .map(|e| {
                    let mut o = json!({"seq": e.seq, "class": e.class, "n": e.n, "kind": e.kind,
                                       "path": e.path, "off": e.off, "len": e.len});
                    if let Some(b) = &e.bytes {
                        o["hex"] = Value::String(payload::hex(b));
                    }
                    o
                })
                .collect();
            json!({"ok": true, "trace": v})
        }
        "clock" => {
            verif::set_clock(req["ms"].as_u64().unwrap_or(0));
            json!({"ok": true})
        }
        "file_states" => {
            let v: Vec<Value> = walrus_rust::wal::verif_file_states()
                .into_iter()
                .map(|(p, l, c, t, f)| json!([p, l, c, t, f]))
                .collect();
            json!({"ok": true, "files": v})
        }
        "block_states" => {
            let v: Vec<Value> = walrus_rust::wal::verif_block_states()
                .into_iter()
                .map(|(id, p, c)| json!([id, p, c]))
                .collect();
            json!({"ok": true, "blocks": v})
        }
        "layout" => {
            let Some(w) = get(st, req) else { return json!({"err":"nohandle"}) };
            let (l, cur) = w.verif_layout(req["t"].as_str().unwrap_or(""));
            let v: Vec<Value> = l.into_iter().map(|(id, f, off, used, tail)| json!([id, f, off, used, tail])).collect();
            json!({"ok": true, "blocks": v, "cursor": [cur.0, cur.1, cur.2, cur.3]})
        }
        "wait_reclaim" => {
            // wait (bounded) until `passes` more reclaim passes of the background workers happened
            let want = verif::bg_reclaim_passes() + req["passes"].as_u64().unwrap_or(1);
            let deadline = std::time::Instant::now()
                + std::time::Duration::from_millis(req["timeout_ms"].as_u64().unwrap_or(20000));
            while verif::bg_reclaim_passes() < want && std::time::Instant::now() < deadline {
                std::thread::sleep(std::time::Duration::from_millis(5));
            }
            json!({"ok": verif::bg_reclaim_passes() >= want, "passes": verif::bg_reclaim_passes()})
        }
        "sleep" => {
            std::thread::sleep(std::time::Duration::from_millis(req["ms"].as_u64().unwrap_or(1)));
            json!({"ok": true})
        }
        "run_concurrent" => sched::run_concurrent(st, req),
        "ping" => json!({"ok": true}),
        _ => json!({"err": "badop"}),
    }
}

fn exec_caught(st: &State, req: &Value) -> Value {
    match catch_unwind(AssertUnwindSafe(|| exec(st, req))) {
        Ok(v) => v,
        Err(p) => {
            let msg = if let Some(s) = p.downcast_ref::<&str>() {
                s.to_string()
            } else if let Some(s) = p.downcast_ref::<String>() {
                s.clone()
            } else {
                "?".to_string()
            };
            json!({"panic": msg})
        }
    }
}

mod sched {
    //! Token scheduler over the engine's `sched_point` hook.
    use super::*;
    use std::cell::Cell;

    thread_local!(static TID: Cell<Option<usize>> = const { Cell::new(None) });

    struct St {
        cur: Option<usize>,
        runnable: Vec<bool>,
        waiting: Vec<bool>,
        forced: Vec<usize>,
        trace: Vec<(usize, usize, usize)>, // (choice index, options, chosen tid)
        sites: Vec<String>,
        rng: u64,
        mode: u8, // 0 dfs(default first), 1 random, 2 pct
        prio: Vec<u64>,
        change_at: Vec<usize>,
        steps: usize,
        max_steps: usize,
        aborted: bool,
    }
    struct Ctl {
        st: Mutex<St>,
        cv: Condvar,
    }
    fn next(r: &mut u64) -> u64 {
        *r ^= *r << 13;
        *r ^= *r >> 7;
        *r ^= *r << 17;
        *r
    }
    impl Ctl {
        fn pick(&self, st: &mut St, from: Option<usize>) {
            let opts: Vec<usize> = (0..st.runnable.len()).filter(|&i| st.runnable[i]).collect();
            if opts.is_empty() {
                st.cur = None;
                return;
            }
            let step = st.trace.len();
            st.steps += 1;
            let c = if step < st.forced.len() {
                st.forced[step].min(opts.len() - 1)
            } else {
                match st.mode {
                    1 => (next(&mut st.rng) % opts.len() as u64) as usize,
                    2 => {
                        if st.change_at.contains(&step) {
                            if let Some(f) = from {
                                st.prio[f] = 0; // demote the running thread
                            }
                        }
                        let mut best = 0;
                        for (i, &t) in opts.iter().enumerate() {
                            if st.prio[t] > st.prio[opts[best]] {
                                best = i;
                            }
                        }
                        best
                    }
                    _ => {
                        // default: keep running the current thread if possible (index of `from`), else first
                        match from.and_then(|f| opts.iter().position(|&t| t == f)) {
                            Some(i) => i,
                            None => 0,
                        }
                    }
                }
            };
            st.trace.push((c, opts.len(), opts[c]));
            st.cur = Some(opts[c]);
        }
        fn yield_point(&self, tid: usize, site: &'static str) {
            let mut st = self.st.lock().unwrap();
            if st.aborted {
                return;
            }
            if st.steps >= st.max_steps {
                // runaway schedule: release everyone (free-run to the end)
                st.aborted = true;
                self.cv.notify_all();
                return;
            }
            st.sites.push(format!("{}:{}", tid, site));
            self.pick(&mut st, Some(tid));
            self.cv.notify_all();
            while st.cur != Some(tid) && !st.aborted {
                st = self.cv.wait(st).unwrap();
            }
        }
        fn start(&self, tid: usize) {
            let mut st = self.st.lock().unwrap();
            st.waiting[tid] = true;
            self.cv.notify_all();
            while st.cur != Some(tid) && !st.aborted {
                st = self.cv.wait(st).unwrap();
            }
        }
        fn finish(&self, tid: usize) {
            let mut st = self.st.lock().unwrap();
            st.runnable[tid] = false;
            if !st.aborted {
                self.pick(&mut st, None);
            }
            self.cv.notify_all();
        }
    }

    pub fn run_concurrent(stt: &State, req: &Value) -> Value {
        let threads: Vec<Vec<Value>> = req["threads"]
            .as_array()
            .map(|a| a.iter().map(|t| t.as_array().cloned().unwrap_or_default()).collect())
            .unwrap_or_default();
        let n = threads.len();
        let sc = &req["sched"];
        let mode_s = sc["mode"].as_str().unwrap_or("dfs");
        let seed = sc["seed"].as_u64().unwrap_or(1) | 1;
        let forced: Vec<usize> = sc["forced"]
            .as_array()
            .map(|a| a.iter().filter_map(|x| x.as_u64()).map(|x| x as usize).collect())
            .unwrap_or_default();
        let free = mode_s == "free";
        let mut rng = seed.wrapping_mul(0x9E3779B97F4A7C15) | 1;
        let mut prio: Vec<u64> = (0..n).map(|_| 1 + next(&mut rng) % 1_000_000).collect();
        if prio.is_empty() {
            prio.push(1);
        }
        let depth = sc["depth"].as_u64().unwrap_or(2) as usize;
        let est = sc["est_steps"].as_u64().unwrap_or(40).max(1);
        let change_at: Vec<usize> = (1..depth).map(|_| (next(&mut rng) % est) as usize).collect();
        let ctl = Arc::new(Ctl {
            st: Mutex::new(St {
                cur: None,
                runnable: vec![true; n],
                waiting: vec![false; n],
                forced,
                trace: vec![],
                sites: vec![],
                rng,
                mode: match mode_s {
                    "random" => 1,
                    "pct" => 2,
                    _ => 0,
                },
                prio,
                change_at,
                steps: 0,
                max_steps: sc["max_steps"].as_u64().unwrap_or(5000) as usize,
                aborted: false,
            }),
            cv: Condvar::new(),
        });
        if free {
            let s0 = seed;
            verif::install_scheduler(Some(Arc::new(move |_site| {
                thread_local!(static R: Cell<u64> = const { Cell::new(0) });
                let tid = TID.with(|t| t.get()).unwrap_or(0) as u64;
                let mut r = R.with(|r| r.get());
                if r == 0 {
                    r = (s0 ^ (tid + 1).wrapping_mul(0x9E3779B97F4A7C15)) | 1;
                }
                let x = next(&mut r);
                R.with(|c| c.set(r));
                match x % 8 {
                    0 => std::thread::sleep(std::time::Duration::from_micros(x >> 8 & 0xff)),
                    1 | 2 | 3 => std::thread::yield_now(),
                    _ => {}
                }
            })));
        } else {
            let c2 = ctl.clone();
            verif::install_scheduler(Some(Arc::new(move |site| {
                if let Some(t) = TID.with(|t| t.get()) {
                    c2.yield_point(t, site);
                }
            })));
        }
        let stref: &State = stt;
        let hist: Vec<Vec<Value>> = std::thread::scope(|scope| {
            let mut hs = vec![];
            for (tid, ops) in threads.iter().enumerate() {
                let ctl = ctl.clone();
                hs.push(scope.spawn(move || {
                    TID.with(|t| t.set(Some(tid)));
                    if !free {
                        ctl.start(tid);
                    }
                    let mut out = vec![];
                    for op in ops {
                        let c = stref.stamp.fetch_add(1, Ordering::SeqCst) + 1;
                        let r = exec_caught(stref, op);
                        let e = stref.stamp.fetch_add(1, Ordering::SeqCst) + 1;
                        out.push(json!({"call": c, "ret": e, "res": r}));
                    }
                    if !free {
                        ctl.finish(tid);
                    }
                    TID.with(|t| t.set(None));
                    out
                }));
            }
            if !free {
                let mut st = ctl.st.lock().unwrap();
                while !st.waiting.iter().all(|&b| b) {
                    st = ctl.cv.wait(st).unwrap();
                }
                ctl.pick(&mut st, None);
                ctl.cv.notify_all();
            }
            hs.into_iter().map(|h| h.join().unwrap_or_default()).collect()
        });
        verif::install_scheduler(None);
        let st = ctl.st.lock().unwrap();
        let tr: Vec<Value> = st.trace.iter().map(|(c, n, t)| json!([c, n, t])).collect();
        json!({"ok": true, "hist": hist, "trace": tr, "sites": st.sites, "aborted": st.aborted})
    }
}

fn main() {
    std::env::set_var("WALRUS_QUIET", "1");
    std::panic::set_hook(Box::new(|info| {
        eprintln!("[wsrv panic] {}", info);
    }));
    let st = State {
        handles: RwLock::new(HashMap::new()),
        stamp: AtomicU64::new(0),
    };
    let stdin = std::io::stdin();
    let stdout = std::io::stdout();
    for line in stdin.lock().lines() {
        let Ok(line) = line else { break };
        if line.trim().is_empty() {
            continue;
        }
        let req: Value = match serde_json::from_str(&line) {
            Ok(v) => v,
            Err(e) => {
                let mut o = stdout.lock();
                let _ = writeln!(o, "@{}", json!({"err":"json","msg":e.to_string()}));
                let _ = o.flush();
                continue;
            }
        };
        if req["op"] == "exit" {
            // leave without running destructors of leaked instances
            let mut o = stdout.lock();
            let _ = writeln!(o, "@{}", json!({"ok":true}));
            let _ = o.flush();
            unsafe { libc::_exit(0) }
        }
        let rep = exec_caught(&st, &req);
        let mut o = stdout.lock();
        let _ = writeln!(o, "@{}", rep);
        let _ = o.flush();
    }
}
