//! oct: op server over the real octopii storage layer, compiled unchanged via #[path]:
//!   octopii/src/wal/mod.rs (WriteAheadLog + octopii's vendored engine copy), octopii/src/state_machine.rs,
//!   octopii/src/openraft/{types,storage}.rs (WalLogStore, MemStateMachine adapter)
//! against the stand-in tokio / bincode / futures crates and a type-level stub of openraft's storage API
//! (/verif/standins/openraft: data carriers and trait signatures only). One process = one process lifetime.
//! JSON lines on stdin, '@'-prefixed replies. No checking logic here.
#![allow(dead_code, unused)]
mod error {
    #[derive(Debug)]
    pub enum OctopiiError {
        Wal(String),
        Io(std::io::Error),
    }
    impl std::fmt::Display for OctopiiError {
        fn fmt(&self, f: &mut std::fmt::Formatter<'_>) -> std::fmt::Result {
            write!(f, "{:?}", self)
        }
    }
    impl std::error::Error for OctopiiError {}
    pub type Result<T> = std::result::Result<T, OctopiiError>;
}
#[path = "/repo/octopii/src/wal/mod.rs"]
mod wal;
#[path = "/repo/octopii/src/state_machine.rs"]
mod state_machine;
mod openraft {
    #[path = "/repo/octopii/src/openraft/types.rs"]
    pub mod types;
    #[path = "/repo/octopii/src/openraft/storage.rs"]
    pub mod storage;
}
use crate::openraft::storage::*;
use crate::openraft::types::*;
use crate::state_machine::{KvStateMachine, StateMachineTrait};
use ::openraft::storage::{IOFlushed, RaftLogStorage, RaftSnapshotBuilder, RaftStateMachine, Responder};
use ::openraft::{Entry, EntryPayload, LeaderId, LogId, RaftLogReader, Vote};
use serde_json::{json, Value};
use std::io::{BufRead, Write};
use std::sync::Arc;

fn entry_of(v: &Value) -> Entry<AppTypeConfig> {
    let term = v[0].as_u64().unwrap_or(0);
    let index = v[1].as_u64().unwrap_or(0);
    let payload = match v[2].as_str().unwrap_or("blank") {
        "normal" => EntryPayload::Normal(AppEntry(v[3].as_str().unwrap_or("").as_bytes().to_vec())),
        "membership" => {
            let ids: std::collections::BTreeSet<u64> = v[3].as_array().map(|a| a.iter().filter_map(|x| x.as_u64()).collect()).unwrap_or_default();
            EntryPayload::Membership(::openraft::Membership::new(vec![ids]))
        }
        _ => EntryPayload::Blank,
    };
    Entry { log_id: LogId::new(term, 1, index), payload }
}
fn entry_json(e: &Entry<AppTypeConfig>) -> Value {
    let (k, t) = match &e.payload {
        EntryPayload::Blank => ("blank", Value::Null),
        EntryPayload::Normal(d) => ("normal", Value::String(String::from_utf8_lossy(&d.0).into_owned())),
        EntryPayload::Membership(m) => ("membership", json!(m.configs)),
    };
    json!([e.log_id.leader_id.term, e.log_id.index, k, t])
}
fn logid_json(l: &Option<LogId<AppTypeConfig>>) -> Value {
    match l {
        Some(l) => json!([l.leader_id.term, l.index]),
        None => Value::Null,
    }
}
fn kv_dump(app: &KvStateMachine) -> Value {
    // decoded, order-independent view of the application state
    let snap = app.snapshot();
    let m: std::collections::HashMap<Vec<u8>, Vec<u8>> = bincode::deserialize(&snap).unwrap_or_default();
    let b: std::collections::BTreeMap<String, String> =
        m.into_iter().map(|(k, v)| (String::from_utf8_lossy(&k).into_owned(), String::from_utf8_lossy(&v).into_owned())).collect();
    json!(b)
}

struct St {
    wal: Option<Arc<wal::WriteAheadLog>>,
    store: Option<WalLogStore>,
}

fn exec(st: &mut St, req: &Value) -> Value {
    match req["op"].as_str().unwrap_or("") {
        "wal_open" => {
            let p = std::path::PathBuf::from(req["path"].as_str().unwrap_or(""));
            let ms = req["flush_ms"].as_u64().unwrap_or(100);
            match tokio::block_on(wal::WriteAheadLog::new(p, 10, tokio::time::Duration::from_millis(ms))) {
                Ok(w) => {
                    st.wal = Some(Arc::new(w));
                    json!({"ok": true})
                }
                Err(e) => json!({"err": e.to_string()}),
            }
        }
        "wal_append" => {
            let Some(w) = st.wal.clone() else { return json!({"err": "nowal"}) };
            match tokio::block_on(w.append(bytes::Bytes::from(req["text"].as_str().unwrap_or("").as_bytes().to_vec()))) {
                Ok(off) => json!({"ok": true, "offset": off}),
                Err(e) => json!({"err": e.to_string()}),
            }
        }
        "wal_read_all" => {
            let Some(w) = st.wal.clone() else { return json!({"err": "nowal"}) };
            match tokio::block_on(w.read_all()) {
                Ok(v) => json!({"ok": true, "records": v.iter().map(|b| String::from_utf8_lossy(b).into_owned()).collect::<Vec<_>>()}),
                Err(e) => json!({"err": e.to_string()}),
            }
        }
        "store_open" => {
            let Some(w) = st.wal.clone() else { return json!({"err": "nowal"}) };
            match tokio::block_on(new_wal_log_store(w)) {
                Ok(s) => {
                    st.store = Some(s);
                    json!({"ok": true})
                }
                Err(e) => json!({"err": e.to_string()}),
            }
        }
        "store_append" => {
            let Some(s) = st.store.as_mut() else { return json!({"err": "nostore"}) };
            let ents: Vec<Entry<AppTypeConfig>> = req["entries"].as_array().map(|a| a.iter().map(entry_of).collect()).unwrap_or_default();
            match tokio::block_on(s.append(ents, IOFlushed::new())) {
                Ok(()) => json!({"ok": true}),
                Err(e) => json!({"err": e.to_string()}),
            }
        }
        "store_truncate" | "store_purge" => {
            let Some(s) = st.store.as_mut() else { return json!({"err": "nostore"}) };
            let l = LogId::new(req["term"].as_u64().unwrap_or(0), 1, req["index"].as_u64().unwrap_or(0));
            let r = if req["op"] == "store_truncate" { tokio::block_on(s.truncate(l)) } else { tokio::block_on(s.purge(l)) };
            match r {
                Ok(()) => json!({"ok": true}),
                Err(e) => json!({"err": e.to_string()}),
            }
        }
        "save_vote" => {
            let Some(s) = st.store.as_mut() else { return json!({"err": "nostore"}) };
            let v = Vote { leader_id: LeaderId { term: req["term"].as_u64().unwrap_or(0), node_id: req["node"].as_u64().unwrap_or(0) }, committed: req["committed"].as_bool().unwrap_or(false) };
            match tokio::block_on(s.save_vote(&v)) {
                Ok(()) => json!({"ok": true}),
                Err(e) => json!({"err": e.to_string()}),
            }
        }
        "save_committed" => {
            let Some(s) = st.store.as_mut() else { return json!({"err": "nostore"}) };
            let c = if req["index"].is_null() { None } else { Some(LogId::new(req["term"].as_u64().unwrap_or(0), 1, req["index"].as_u64().unwrap_or(0))) };
            match tokio::block_on(s.save_committed(c)) {
                Ok(()) => json!({"ok": true}),
                Err(e) => json!({"err": e.to_string()}),
            }
        }
        "store_state" => {
            let Some(s) = st.store.as_mut() else { return json!({"err": "nostore"}) };
            let ls = match tokio::block_on(s.get_log_state()) {
                Ok(x) => x,
                Err(e) => return json!({"err": e.to_string()}),
            };
            let vote = tokio::block_on(s.read_vote()).ok().flatten();
            let committed = tokio::block_on(s.read_committed()).ok().flatten();
            let ents = tokio::block_on(s.try_get_log_entries(0..u64::MAX)).unwrap_or_default();
            json!({"ok": true, "last_purged": logid_json(&ls.last_purged_log_id), "last": logid_json(&ls.last_log_id),
                   "vote": vote.map(|v| json!([v.leader_id.term, v.leader_id.node_id, v.committed])),
                   "committed": logid_json(&committed), "entries": ents.iter().map(entry_json).collect::<Vec<_>>()})
        }
        // C20 part 2: adapter A applies `cmds`, builds a snapshot, adapter B installs it; both then apply `suffix`
        "snapshot_transfer" => {
            let app_a: Arc<KvStateMachine> = Arc::new(KvStateMachine::in_memory());
            let app_b: Arc<KvStateMachine> = Arc::new(KvStateMachine::in_memory());
            let mut a = new_mem_state_machine(app_a.clone());
            let mut b = new_mem_state_machine(app_b.clone());
            let mk = |cmds: &Value, base: u64| -> Vec<Result<(Entry<AppTypeConfig>, Option<Responder<AppTypeConfig>>), std::io::Error>> {
                cmds.as_array().map(|arr| arr.iter().enumerate().map(|(i, c)| {
                    let idx = base + i as u64 + 1;
                    let payload = match c.as_str() {
                        Some(s) => EntryPayload::Normal(AppEntry(s.as_bytes().to_vec())),
                        None if c.is_array() => EntryPayload::Membership(::openraft::Membership::new(vec![c.as_array().unwrap().iter().filter_map(|x| x.as_u64()).collect()])),
                        None => EntryPayload::Blank,
                    };
                    Ok((Entry { log_id: LogId::new(1, 1, idx), payload }, None))
                }).collect()).unwrap_or_default()
            };
            let pre_b = mk(&req["b_before"], 0);
            let n_pre = req["cmds"].as_array().map(|a| a.len()).unwrap_or(0) as u64;
            tokio::block_on(async {
                let mut errs: Vec<String> = vec![];
                if let Err(e) = b.apply(futures::stream::iter(pre_b)).await { errs.push(format!("b pre-apply: {e}")); }
                if let Err(e) = a.apply(futures::stream::iter(mk(&req["cmds"], 0))).await { errs.push(format!("a apply: {e}")); }
                let snap = match a.build_snapshot().await { Ok(s) => s, Err(e) => return json!({"err": format!("build_snapshot: {e}")}) };
                let a_at_snapshot = kv_dump(&app_a);
                let a_applied = a.applied_state().await.ok();
                let bytes = snap.snapshot.get_ref().len();
                if let Err(e) = b.install_snapshot(&snap.meta, snap.snapshot).await { errs.push(format!("install: {e}")); }
                let b_after_install = kv_dump(&app_b);
                let b_applied = b.applied_state().await.ok();
                if let Err(e) = a.apply(futures::stream::iter(mk(&req["suffix"], n_pre))).await { errs.push(format!("a suffix: {e}")); }
                if let Err(e) = b.apply(futures::stream::iter(mk(&req["suffix"], n_pre))).await { errs.push(format!("b suffix: {e}")); }
                json!({"ok": true, "snapshot_bytes": bytes, "a_at_snapshot": a_at_snapshot, "b_after_install": b_after_install,
                       "a_final": kv_dump(&app_a), "b_final": kv_dump(&app_b), "errors": errs,
                       "applied_equal": a_applied.as_ref().map(|x| logid_json(&x.0)) == b_applied.as_ref().map(|x| logid_json(&x.0)),
                       "membership_equal": a_applied.map(|x| x.1) == b_applied.map(|x| x.1)})
            })
        }
        // C20 part 2, concurrent: an applier thread keeps applying entries to adapter A while the snapshot is built (openraft builds
        // snapshots in a spawned task while the state-machine worker keeps applying). The application's snapshot() takes `delay_us`
        // (a real application serialises a large state), which is what makes the window observable.
        "snapshot_transfer_concurrent" => {
            struct Slow { inner: KvStateMachine, delay_us: u64 }
            impl StateMachineTrait for Slow {
                fn apply(&self, c: &[u8]) -> std::result::Result<bytes::Bytes, String> { self.inner.apply(c) }
                fn snapshot(&self) -> Vec<u8> { std::thread::sleep(std::time::Duration::from_micros(self.delay_us)); self.inner.snapshot() }
                fn restore(&self, d: &[u8]) -> std::result::Result<(), String> { self.inner.restore(d) }
            }
            let delay_us = req["delay_us"].as_u64().unwrap_or(300);
            let app_a = Arc::new(Slow { inner: KvStateMachine::in_memory(), delay_us });
            let app_b: Arc<KvStateMachine> = Arc::new(KvStateMachine::in_memory());
            let a = new_mem_state_machine(app_a.clone());
            let mut b = new_mem_state_machine(app_b.clone());
            let cmds: Vec<String> = req["cmds"].as_array().map(|x| x.iter().filter_map(|c| c.as_str().map(|s| s.to_string())).collect()).unwrap_or_default();
            let pause_us = req["pause_us"].as_u64().unwrap_or(50);
            let start_after = req["start_after"].as_u64().unwrap_or(0) as usize;
            let applied = Arc::new(std::sync::atomic::AtomicUsize::new(0));
            let mut a_applier = a.clone();
            let cmds2 = cmds.clone();
            let applied2 = applied.clone();
            let h = std::thread::spawn(move || {
                for (i, c) in cmds2.iter().enumerate() {
                    let e: Vec<Result<(Entry<AppTypeConfig>, Option<Responder<AppTypeConfig>>), std::io::Error>> =
                        vec![Ok((Entry { log_id: LogId::new(1, 1, i as u64 + 1), payload: EntryPayload::Normal(AppEntry(c.as_bytes().to_vec())) }, None))];
                    let _ = tokio::block_on(a_applier.apply(futures::stream::iter(e)));
                    applied2.store(i + 1, std::sync::atomic::Ordering::SeqCst);
                    if pause_us > 0 { std::thread::sleep(std::time::Duration::from_micros(pause_us)); }
                }
            });
            while applied.load(std::sync::atomic::Ordering::SeqCst) < start_after.min(cmds.len()) { std::thread::yield_now(); }
            let mut a_builder = a.clone();
            let snap = tokio::block_on(a_builder.build_snapshot());
            let _ = h.join();
            let snap = match snap { Ok(s) => s, Err(e) => return json!({"err": format!("build_snapshot: {e}")}) };
            let last_index = snap.meta.last_log_id.map(|l| l.index).unwrap_or(0);
            let r = tokio::block_on(b.install_snapshot(&snap.meta, snap.snapshot));
            let b_after_install = kv_dump(&app_b);
            // the receiver then applies every entry after the snapshot's log id, as Raft replication would
            let rest: Vec<Result<(Entry<AppTypeConfig>, Option<Responder<AppTypeConfig>>), std::io::Error>> = cmds.iter().enumerate().skip(last_index as usize)
                .map(|(i, c)| Ok((Entry { log_id: LogId::new(1, 1, i as u64 + 1), payload: EntryPayload::Normal(AppEntry(c.as_bytes().to_vec())) }, None))).collect();
            let r2 = tokio::block_on(b.apply(futures::stream::iter(rest)));
            json!({"ok": true, "snapshot_last_index": last_index, "b_after_install": b_after_install, "a_final": kv_dump(&app_a.inner), "b_final": kv_dump(&app_b),
                   "errors": [r.err().map(|e| e.to_string()), r2.err().map(|e| e.to_string())]})
        }
        "ping" => json!({"ok": true}),
        _ => json!({"err": "badop"}),
    }
}

fn main() {
    std::env::set_var("WALRUS_QUIET", "1");
    std::panic::set_hook(Box::new(|i| eprintln!("[oct panic] {}", i)));
    let mut st = St { wal: None, store: None };
    let stdin = std::io::stdin();
    let stdout = std::io::stdout();
    for line in stdin.lock().lines() {
        let Ok(line) = line else { break };
        if line.trim().is_empty() {
            continue;
        }
        let req: Value = serde_json::from_str(&line).unwrap_or(json!({"op": "bad"}));
        if req["op"] == "exit" {
            let mut o = stdout.lock();
            let _ = writeln!(o, "@{}", json!({"ok": true}));
            let _ = o.flush();
            unsafe { libc::_exit(0) }
        }
        let rep = match std::panic::catch_unwind(std::panic::AssertUnwindSafe(|| exec(&mut st, &req))) {
            Ok(v) => v,
            Err(_) => json!({"panic": true}),
        };
        let mut o = stdout.lock();
        let _ = writeln!(o, "@{}", rep);
        let _ = o.flush();
    }
}
