//! In-process explorations with Rust-side assertions (speed: 10^5-10^6 cases): C25 keys, C18 metadata invariants,
//! C20 part 1 snapshot/restore. This module is separate from the included repository files; it only calls their
//! public items. Results are printed as one JSON object per line; the python driver aggregates them.
use crate::controller::{parse_wal_key, wal_key};
use crate::metadata::{ClusterState, Metadata, MetadataCmd, TopicState};
use octopii::StateMachineTrait;
use serde_json::{json, Value};
use std::collections::{BTreeMap, HashMap, HashSet};
use std::panic::{catch_unwind, AssertUnwindSafe};

struct Rng(u64);
impl Rng {
    fn next(&mut self) -> u64 {
        self.0 ^= self.0 << 13;
        self.0 ^= self.0 >> 7;
        self.0 ^= self.0 << 17;
        self.0
    }
    fn below(&mut self, n: u64) -> u64 {
        self.next() % n.max(1)
    }
}

// ------------------------------------------------------------------------------------------------ C25
pub fn c25(a: &[String]) {
    let maxlen: usize = a.first().and_then(|s| s.parse().ok()).unwrap_or(6);
    let nrandom: u64 = a.get(1).and_then(|s| s.parse().ok()).unwrap_or(100_000);
    let seed: u64 = a.get(2).and_then(|s| s.parse().ok()).unwrap_or(1);
    let segs = [0u64, 1, 9, 10, 1 << 32, u64::MAX];
    let chars = ['t', 's', '_', '0', '1', 'a'];
    let mut seen: HashMap<String, (String, u64)> = HashMap::new();
    let mut pairs = 0u64;
    let mut bad: Vec<Value> = vec![];
    let mut coll: Vec<Value> = vec![];
    let mut nbad = 0u64;
    let mut ncoll = 0u64;
    let mut check = |topic: &str, seg: u64, seen: &mut HashMap<String, (String, u64)>| {
        pairs += 1;
        let k = wal_key(topic, seg);
        let back = parse_wal_key(&k);
        if back != Some((topic.to_string(), seg)) {
            nbad += 1;
            if bad.len() < 10 {
                bad.push(json!({"topic": topic, "segment": seg, "key": k, "decoded": format!("{:?}", back)}));
            }
        }
        if let Some(prev) = seen.get(&k) {
            if prev.0 != topic || prev.1 != seg {
                ncoll += 1;
                if coll.len() < 10 {
                    coll.push(json!({"key": k, "a": [prev.0, prev.1], "b": [topic, seg]}));
                }
            }
        } else {
            seen.insert(k, (topic.to_string(), seg));
        }
    };
    let mut stack = vec![String::new()];
    let mut strings = 0u64;
    while let Some(s) = stack.pop() {
        strings += 1;
        for seg in segs {
            check(&s, seg, &mut seen);
        }
        if s.chars().count() < maxlen {
            for c in chars {
                let mut t = s.clone();
                t.push(c);
                stack.push(t);
            }
        }
    }
    // random topics over a wider alphabet (incl. multi-byte, the separators and digits) with random segments
    let mut r = Rng(seed.wrapping_mul(0x9E3779B97F4A7C15) | 1);
    let pool: Vec<char> = "ts_0123456789abzAZ-. /\\\u{e9}\u{4e16}\u{1F600}\n\t".chars().collect();
    let frag = ["_s_", "t_", "_s", "s_", "_", "t_t_", "_s_1", "_s_0_s_"];
    for _ in 0..nrandom {
        let mut s = String::new();
        let parts = r.below(6);
        for _ in 0..parts {
            if r.below(3) == 0 {
                s.push_str(frag[r.below(frag.len() as u64) as usize]);
            } else {
                for _ in 0..r.below(5) {
                    s.push(pool[r.below(pool.len() as u64) as usize]);
                }
            }
        }
        let seg = match r.below(5) {
            0 => r.below(12),
            1 => u64::MAX - r.below(3),
            2 => 1 << r.below(64),
            _ => r.next(),
        };
        check(&s, seg, &mut seen);
    }
    println!(
        "{}",
        json!({"mode": "c25", "maxlen": maxlen, "strings_exhaustive": strings, "pairs": pairs, "random_pairs": nrandom,
               "distinct_keys": seen.len(), "roundtrip_failures": nbad, "collisions": ncoll, "bad": bad, "coll": coll})
    );
}

// ------------------------------------------------------------------------------------------------ C18 / C20 part 1
fn enc(c: &MetadataCmd) -> Vec<u8> {
    bincode::serialize(c).unwrap()
}

/// canonical, order-independent view of the whole state (through the public snapshot)
fn canon(m: &Metadata) -> Option<Value> {
    let snap = catch_unwind(AssertUnwindSafe(|| m.snapshot())).ok()?;
    let st: ClusterState = bincode::deserialize(&snap).ok()?;
    serde_json::to_value(&st).ok()
}

fn topic_names(v: &Value) -> Vec<String> {
    v["topics"].as_object().map(|o| o.keys().cloned().collect()).unwrap_or_default()
}

fn check_topic(name: &str, s: &TopicState) -> Result<(), String> {
    let cur = s.current_segment;
    if cur == 0 {
        return Err(format!("{name}: current_segment 0"));
    }
    let mut keys: Vec<u64> = s.segment_leaders.keys().copied().collect();
    keys.sort();
    if keys.len() as u64 != cur || keys.first() != Some(&1) || keys.last() != Some(&cur) {
        return Err(format!("{name}: segment_leaders keys {:?} but current_segment {}", &keys[..keys.len().min(8)], cur));
    }
    if s.segment_leaders.get(&cur) != Some(&s.leader_node) {
        return Err(format!("{name}: leader of open segment {:?} != topic leader {}", s.segment_leaders.get(&cur), s.leader_node));
    }
    let mut sk: Vec<u64> = s.sealed_segments.keys().copied().collect();
    sk.sort();
    if sk.len() as u64 != cur - 1 || (cur > 1 && (sk.first() != Some(&1) || sk.last() != Some(&(cur - 1)))) {
        return Err(format!("{name}: sealed_segments keys {:?} but current_segment {}", &sk[..sk.len().min(8)], cur));
    }
    let sum: u128 = s.sealed_segments.values().map(|v| *v as u128).sum();
    if sum != s.last_sealed_entry_offset as u128 {
        return Err(format!("{name}: last_sealed_entry_offset {} != sum of sealed counts {}", s.last_sealed_entry_offset, sum));
    }
    Ok(())
}

/// everything the property demands of one transition `before --cmd--> after`
fn check_transition(m: &Metadata, before: &Value, result: &Result<bytes::Bytes, String>, names: &[String]) -> Result<Value, String> {
    let after = canon(m).ok_or_else(|| "state unreadable after apply (poisoned lock or undecodable snapshot)".to_string())?;
    if result.is_err() && &after != before {
        return Err("a rejected command changed the state".into());
    }
    let mut all: HashSet<String> = names.iter().cloned().collect();
    all.extend(topic_names(&after));
    for t in all.iter() {
        let st = m.get_topic_state(t);
        let in_snap = after["topics"].get(t).is_some();
        match st {
            Some(s) => {
                if !in_snap {
                    return Err(format!("{t}: get_topic_state and snapshot disagree"));
                }
                check_topic(t, &s)?;
            }
            None => {
                if in_snap {
                    return Err(format!("{t}: in snapshot but get_topic_state is None"));
                }
            }
        }
        // sealed history is immutable
        if let Some(b) = before["topics"].get(t) {
            let a = &after["topics"][t];
            if a.is_null() {
                return Err(format!("{t}: topic vanished"));
            }
            if let Some(sealed) = b["sealed_segments"].as_object() {
                for (seg, cnt) in sealed {
                    if &a["sealed_segments"][seg] != cnt {
                        return Err(format!("{t}: sealed segment {seg} count changed {} -> {}", cnt, a["sealed_segments"][seg]));
                    }
                    if a["segment_leaders"][seg] != b["segment_leaders"][seg] {
                        return Err(format!("{t}: sealed segment {seg} leader changed"));
                    }
                }
            }
            // a segment has exactly one leader over the whole history: the leader recorded for a segment (also while it is the open
            // one) never changes later - in particular not when the segment is sealed
            if let Some(leaders) = b["segment_leaders"].as_object() {
                for (seg, l) in leaders {
                    if &a["segment_leaders"][seg] != l {
                        return Err(format!("{t}: leader of segment {seg} changed {} -> {}", l, a["segment_leaders"][seg]));
                    }
                }
            }
            let bc = b["current_segment"].as_u64().unwrap_or(0);
            let ac = a["current_segment"].as_u64().unwrap_or(0);
            if ac < bc {
                return Err(format!("{t}: current_segment went backwards {bc} -> {ac}"));
            }
        }
    }
    Ok(after)
}

fn snapshot_roundtrip(m: &Metadata, state: &Value, suffix: &[Vec<u8>], priors: &[Vec<u8>]) -> Result<(), String> {
    let snap = m.snapshot();
    // a snapshot is installed into replicas that lag behind: their state is the one after some prefix of the sender's history
    for (k, prior) in priors.iter().enumerate() {
        let m3 = Metadata::new();
        m3.restore(prior).map_err(|e| format!("restore of a prefix snapshot failed: {e}"))?;
        m3.restore(&snap).map_err(|e| format!("install into a lagging replica failed: {e}"))?;
        let mut na: Vec<(u64, String)> = m.all_node_addrs();
        let mut nb: Vec<(u64, String)> = m3.all_node_addrs();
        na.sort();
        nb.sort();
        if canon(&m3).as_ref() != Some(state) || na != nb {
            return Err(format!("snapshot installed into a lagging replica (state after the first {k} commands of the sender's history) differs from the sender's state"));
        }
    }
    let m2 = Metadata::new();
    m2.restore(&snap).map_err(|e| format!("restore of own snapshot failed: {e}"))?;
    let c2 = canon(&m2).ok_or("restored state unreadable")?;
    if &c2 != state {
        return Err("restore(snapshot()) differs from the original state".into());
    }
    // getters agree too
    for t in topic_names(state) {
        let a = m.get_topic_state(&t).map(|s| serde_json::to_value(&s).unwrap());
        let b = m2.get_topic_state(&t).map(|s| serde_json::to_value(&s).unwrap());
        if a != b {
            return Err(format!("{t}: get_topic_state differs after restore"));
        }
    }
    let mut na: Vec<(u64, String)> = m.all_node_addrs();
    let mut nb: Vec<(u64, String)> = m2.all_node_addrs();
    na.sort();
    nb.sort();
    if na != nb {
        return Err("node address book differs after restore".into());
    }
    // both copies stay equal under the same subsequent commands (on a scratch copy of the original, restored the same way)
    let m1 = Metadata::new();
    m1.restore(&snap).map_err(|e| e.to_string())?;
    for c in suffix {
        // a panic inside apply is C18's business; here both replicas only have to behave alike
        let r1 = catch_unwind(AssertUnwindSafe(|| m1.apply(c))).map(|r| r.is_ok()).map_err(|_| ());
        let r2 = catch_unwind(AssertUnwindSafe(|| m2.apply(c))).map(|r| r.is_ok()).map_err(|_| ());
        if r1 != r2 {
            return Err("replicas disagree on a command result after restore".into());
        }
        if r1.is_err() {
            return Ok(());
        }
    }
    if canon(&m1) != canon(&m2) {
        return Err("replicas diverge under the same suffix after restore".into());
    }
    Ok(())
}

pub fn meta(a: &[String]) {
    let depth: usize = a.first().and_then(|s| s.parse().ok()).unwrap_or(4);
    let nrandom: u64 = a.get(1).and_then(|s| s.parse().ok()).unwrap_or(200);
    let seed: u64 = a.get(2).and_then(|s| s.parse().ok()).unwrap_or(1);
    let max_states: usize = a.get(3).and_then(|s| s.parse().ok()).unwrap_or(400_000);
    if std::env::var("DW_PANIC_VERBOSE").is_err() { std::panic::set_hook(Box::new(|_| {})); }
    // ---- alphabet: 2 topics, 3 nodes, stale/unknown rollovers, duplicates, undecodable bytes, boundary counts
    let mut alpha: Vec<(String, Vec<u8>)> = vec![];
    for t in ["a", "b"] {
        for l in 1..=3u64 {
            alpha.push((format!("Create({t},{l})"), enc(&MetadataCmd::CreateTopic { name: t.into(), initial_leader: l })));
        }
    }
    for t in ["a", "b", "zz"] {
        for l in 1..=3u64 {
            for n in [0u64, 3, u64::MAX] {
                alpha.push((format!("Rollover({t},{l},{n})"), enc(&MetadataCmd::RolloverTopic { name: t.into(), new_leader: l, sealed_segment_entry_count: n })));
            }
        }
    }
    alpha.push(("Upsert(1,x)".into(), enc(&MetadataCmd::UpsertNode { node_id: 1, addr: "x:1".into() })));
    alpha.push(("Upsert(2,y)".into(), enc(&MetadataCmd::UpsertNode { node_id: 2, addr: "y:2".into() })));
    alpha.push(("bytes(999)".into(), vec![9, 9, 9]));
    alpha.push(("bytes(empty)".into(), vec![]));
    alpha.push(("bytes(tag7)".into(), vec![7, 0, 0, 0, 1, 2, 3, 4, 5, 6, 7, 8]));
    alpha.push(("bytes(hugelen)".into(), vec![0, 0, 0, 0, 0xff, 0xff, 0xff, 0xff, 0xff, 0xff, 0xff, 0x7f, b'a']));
    let names: Vec<String> = vec!["a".into(), "b".into(), "zz".into()];
    let suffix: Vec<Vec<u8>> = vec![alpha[0].1.clone(), alpha[6].1.clone(), alpha[7].1.clone(), alpha[16].1.clone(), alpha[alpha.len() - 5].1.clone(), alpha[4].1.clone(), alpha[15].1.clone()];

    let mut violations: Vec<Value> = vec![];
    let mut c20_violations: Vec<Value> = vec![];
    let mut nviol = 0u64;
    let mut npanic = 0u64;
    let mut nc20 = 0u64;
    let mut transitions = 0u64;
    let mut snapshots_checked = 0u64;
    let mut lagging_installs = 0u64;
    let mut rejected = 0u64;
    // ---- exhaustive BFS over command sequences up to `depth`, pruned by canonical state
    let mut seen: HashMap<String, Vec<usize>> = HashMap::new();
    let m0 = Metadata::new();
    let c0 = canon(&m0).unwrap();
    seen.insert(c0.to_string(), vec![]);
    let mut frontier: Vec<Vec<usize>> = vec![vec![]];
    let mut levels: Vec<usize> = vec![1];
    let mut exhaustive = true;
    for _d in 0..depth {
        let mut next: Vec<Vec<usize>> = vec![];
        for path in frontier.iter() {
            for (i, (label, cmd)) in alpha.iter().enumerate() {
                // rebuild the source state by replaying its path on a fresh state machine
                let m = Metadata::new();
                for &j in path {
                    let _ = catch_unwind(AssertUnwindSafe(|| m.apply(&alpha[j].1)));
                }
                let before = match canon(&m) {
                    Some(v) => v,
                    None => continue,
                };
                transitions += 1;
                let res = catch_unwind(AssertUnwindSafe(|| m.apply(cmd)));
                let seq = || path.iter().map(|&j| alpha[j].0.clone()).chain(std::iter::once(label.clone())).collect::<Vec<_>>();
                let res = match res {
                    Ok(r) => r,
                    Err(_) => {
                        npanic += 1;
                        nviol += 1;
                        if violations.len() < 10 {
                            violations.push(json!({"cls": "panic", "sequence": seq()}));
                        }
                        continue;
                    }
                };
                if res.is_err() {
                    rejected += 1;
                }
                match check_transition(&m, &before, &res, &names) {
                    Err(e) => {
                        nviol += 1;
                        if violations.len() < 10 {
                            violations.push(json!({"cls": "invariant", "what": e, "sequence": seq()}));
                        }
                    }
                    Ok(after) => {
                        let key = after.to_string();
                        if !seen.contains_key(&key) {
                            if seen.len() >= max_states {
                                exhaustive = false;
                                continue;
                            }
                            let mut p = path.clone();
                            p.push(i);
                            seen.insert(key, p.clone());
                            snapshots_checked += 1;
                            // states after every proper prefix of this history: the lagging receivers
                            let mut priors: Vec<Vec<u8>> = vec![];
                            {
                                let mp = Metadata::new();
                                priors.push(mp.snapshot());
                                for &j in path {
                                    let _ = catch_unwind(AssertUnwindSafe(|| mp.apply(&alpha[j].1)));
                                    priors.push(mp.snapshot());
                                }
                            }
                            lagging_installs += priors.len() as u64;
                            if let Err(e) = snapshot_roundtrip(&m, &after, &suffix, &priors) {
                                nc20 += 1;
                                if c20_violations.len() < 10 {
                                    c20_violations.push(json!({"cls": "snapshot-restore", "what": e, "sequence": seq()}));
                                }
                            }
                            next.push(p);
                        }
                    }
                }
            }
        }
        levels.push(next.len());
        frontier = next;
        if frontier.is_empty() {
            break;
        }
    }
    // ---- random long sequences with arbitrary counts, more topics, plus arbitrary / mutated byte strings
    let mut r = Rng(seed.wrapping_mul(0x9E3779B97F4A7C15) | 1);
    let topics = ["a", "b", "c", "zz", "", "t_x_s_1", "\u{e9}"];
    let mut random_cmds = 0u64;
    let mut random_bytes = 0u64;
    for s in 0..nrandom {
        let m = Metadata::new();
        let len = 50 + r.below(if s % 10 == 0 { 5000 } else { 400 });
        let mut before = canon(&m).unwrap();
        let mut trace: Vec<String> = vec![];
        let all_names: Vec<String> = topics.iter().map(|s| s.to_string()).collect();
        // snapshots of a few intermediate states: the lagging receivers of the final snapshot
        let mut rprior: Vec<Vec<u8>> = vec![m.snapshot()];
        for _ in 0..len {
            if rprior.len() < 6 && r.below(40) == 0 {
                rprior.push(m.snapshot());
            }
            let (label, cmd) = match r.below(10) {
                0 | 1 => {
                    let t = topics[r.below(topics.len() as u64) as usize];
                    let l = 1 + r.below(3);
                    (format!("Create({t},{l})"), enc(&MetadataCmd::CreateTopic { name: t.into(), initial_leader: l }))
                }
                2..=6 => {
                    let t = topics[r.below(topics.len() as u64) as usize];
                    let l = 1 + r.below(4);
                    let n = match r.below(8) {
                        0 => 0,
                        1 => u64::MAX,
                        2 => u64::MAX - r.below(5),
                        3 => 1 << 63,
                        4 => r.next(),
                        _ => r.below(1000),
                    };
                    (format!("Rollover({t},{l},{n})"), enc(&MetadataCmd::RolloverTopic { name: t.into(), new_leader: l, sealed_segment_entry_count: n }))
                }
                7 => {
                    let id = r.below(4);
                    (format!("Upsert({id})"), enc(&MetadataCmd::UpsertNode { node_id: id, addr: format!("h{}:{}", id, r.below(9)) }))
                }
                8 => {
                    // mutated valid encoding
                    let mut b = alpha[r.below(alpha.len() as u64 - 4) as usize].1.clone();
                    match r.below(3) {
                        0 if !b.is_empty() => {
                            let i = r.below(b.len() as u64) as usize;
                            b[i] ^= 1 << r.below(8);
                        }
                        1 => {
                            let n = r.below(b.len() as u64 + 1) as usize;
                            b.truncate(n);
                        }
                        _ => b.extend((0..r.below(9)).map(|_| r.next() as u8)),
                    }
                    random_bytes += 1;
                    ("mutated-bytes".to_string(), b)
                }
                _ => {
                    let n = r.below(40);
                    random_bytes += 1;
                    ("random-bytes".to_string(), (0..n).map(|_| r.next() as u8).collect())
                }
            };
            random_cmds += 1;
            trace.push(label);
            if trace.len() > 12 {
                trace.remove(0);
            }
            let res = catch_unwind(AssertUnwindSafe(|| m.apply(&cmd)));
            let res = match res {
                Ok(x) => x,
                Err(_) => {
                    npanic += 1;
                    nviol += 1;
                    if violations.len() < 10 {
                        violations.push(json!({"cls": "panic", "random_sequence_tail": trace, "seed": seed, "sequence_index": s, "cmd_hex": hex(&cmd)}));
                    }
                    break;
                }
            };
            transitions += 1;
            if res.is_err() {
                rejected += 1;
            }
            match check_transition(&m, &before, &res, &all_names) {
                Err(e) => {
                    nviol += 1;
                    if violations.len() < 10 {
                        violations.push(json!({"cls": "invariant", "what": e, "random_sequence_tail": trace, "seed": seed, "sequence_index": s, "cmd_hex": hex(&cmd)}));
                    }
                    break;
                }
                Ok(after) => before = after,
            }
        }
        // the end state of a sequence that ended in a panic / violation is not a meaningful snapshot subject
        if canon(&m).as_ref() != Some(&before) {
            continue;
        }
        snapshots_checked += 1;
        lagging_installs += rprior.len() as u64;
        if let Err(e) = snapshot_roundtrip(&m, &before, &suffix, &rprior) {
            nc20 += 1;
            if c20_violations.len() < 10 {
                c20_violations.push(json!({"cls": "snapshot-restore", "what": e, "random_sequence_tail": trace, "seed": seed, "sequence_index": s}));
            }
        }
    }
    let mut samples: Vec<Value> = vec![];
    for (_k, p) in seen.iter().take(3) {
        samples.push(json!(p.iter().map(|&j| alpha[j].0.clone()).collect::<Vec<_>>()));
    }
    let by_topics: BTreeMap<String, usize> = BTreeMap::new();
    let _ = by_topics;
    println!(
        "{}",
        json!({"mode": "meta", "depth": depth, "alphabet": alpha.len(), "distinct_states": seen.len(), "states_per_level": levels, "exhaustive": exhaustive,
               "transitions": transitions, "rejected_commands": rejected, "random_sequences": nrandom, "random_commands": random_cmds, "random_byte_strings": random_bytes,
               "snapshots_checked": snapshots_checked, "lagging_installs": lagging_installs, "violations": nviol, "panics": npanic, "c20_violations": nc20,
               "violation_samples": violations, "c20_violation_samples": c20_violations, "samples": samples})
    );
}

fn hex(b: &[u8]) -> String {
    b.iter().map(|x| format!("{:02x}", x)).collect()
}
