//! Full stack in one process: real client.rs (TCP), controller/**, bucket.rs, monitor.rs, metadata.rs and the real engine;
//! doubles: tokio / bincode / octopii (see /verif/standins). The wiring below mirrors distributed-walrus/src/main.rs
//! (which cannot be compiled here because it constructs the real OctopiiNode).
//! Control: JSON lines on stdin, one '@'-prefixed reply line each.
use crate::bucket::Storage;
use crate::controller::NodeController;
use crate::metadata::Metadata;
use crate::rpc::{InternalOp, InternalResp};
use octopii::rpc::{RequestPayload, ResponsePayload};
use serde_json::{json, Value};
use std::io::{BufRead, Write};
use std::sync::atomic::{AtomicBool, Ordering};
use std::sync::Arc;
use std::time::Duration;

struct Node {
    id: u64,
    ctl: Arc<NodeController>,
    md: Arc<Metadata>,
    bucket_ptr: String,
    md_ptr: String,
}

struct World {
    cluster: Arc<octopii::Cluster>,
    nodes: Vec<Node>,
    stop: Arc<AtomicBool>,
}

fn start(req: &Value) -> Result<World, String> {
    let dir = req["dir"].as_str().ok_or("dir")?.to_string();
    let n = req["nodes"].as_u64().unwrap_or(1);
    let threshold = req["threshold"].as_u64().unwrap_or(1_000_000);
    std::env::set_var("WALRUS_MAX_SEGMENT_ENTRIES", threshold.to_string());
    std::env::set_var("WALRUS_MONITOR_CHECK_MS", req["monitor_ms"].as_u64().unwrap_or(50).to_string());
    if req["backend"].as_str() == Some("mmap") {
        std::env::set_var("WALRUS_DISABLE_IO_URING", "1");
    }
    crate::verif_events::DELAY_SEED.store(req["delay_seed"].as_u64().unwrap_or(0), Ordering::SeqCst);
    let ports: Vec<u64> = req["ports"].as_array().map(|a| a.iter().filter_map(|x| x.as_u64()).collect()).unwrap_or_default();
    let lag_us = req["lag_us"].as_u64().unwrap_or(0);
    let cluster = octopii::Cluster::new();
    let stop = Arc::new(AtomicBool::new(false));
    let mut nodes = vec![];
    for id in 1..=n {
        let bucket = tokio::block_on(Storage::new(std::path::PathBuf::from(&dir).join(format!("node_{id}")).join("user_data")))
            .map_err(|e| format!("storage: {e}"))?;
        let bucket = Arc::new(bucket);
        let md = Arc::new(Metadata::new());
        let raft_addr: std::net::SocketAddr = format!("127.0.0.1:{}", 7000 + id).parse().unwrap();
        let raft = cluster.add_node(id, raft_addr, md.clone());
        let ctl = Arc::new(NodeController {
            node_id: id,
            bucket: bucket.clone(),
            metadata: md.clone(),
            raft: raft.clone(),
            offsets: Arc::new(tokio::sync::RwLock::new(Default::default())),
            read_cursors: Arc::new(tokio::sync::Mutex::new(Default::default())),
            test_fail_forward_read: false.into(),
            test_fail_monitor: false.into(),
            test_fail_dir_size: false.into(),
        });
        // custom RPC handler exactly as main.rs registers it
        let controller_rpc = ctl.clone();
        let handler: octopii::Handler = Arc::new(move |req: octopii::rpc::RpcRequest| {
            let controller_rpc = controller_rpc.clone();
            Box::pin(async move {
                #[allow(irrefutable_let_patterns)]
                if let RequestPayload::Custom { operation, data } = req.payload {
                    if operation == "Forward" {
                        match bincode::deserialize::<InternalOp>(&data) {
                            Ok(op) => {
                                let resp = controller_rpc.handle_rpc(op).await;
                                let success = !matches!(resp, InternalResp::Error(_));
                                let bytes = bincode::serialize(&resp).unwrap_or_default();
                                return ResponsePayload::CustomResponse { success, data: bytes.into() };
                            }
                            Err(e) => return ResponsePayload::Error { message: format!("decode error: {e}") },
                        }
                    }
                }
                ResponsePayload::Error { message: "unsupported request".into() }
            })
        });
        tokio::block_on(raft.set_custom_rpc_handler(handler));
        let bucket_ptr = format!("{:p}", Arc::as_ptr(&bucket));
        let md_ptr = md.verif_state_ptr();
        nodes.push(Node { id, ctl, md, bucket_ptr, md_ptr });
    }
    // node addresses into the metadata (node 1 is the metadata leader of the double)
    for nd in nodes.iter() {
        tokio::block_on(nodes[0].ctl.upsert_node(nd.id, format!("127.0.0.1:{}", 7000 + nd.id))).map_err(|e| format!("upsert: {e}"))?;
    }
    for nd in nodes.iter() {
        cluster.catch_up(nd.id);
    }
    for (i, nd) in nodes.iter().enumerate() {
        let c = nd.ctl.clone();
        let port = ports.get(i).copied().unwrap_or(0);
        std::thread::spawn(move || {
            tokio::block_on(async move {
                let _ = crate::client::start_client_listener(c, format!("127.0.0.1:{port}")).await;
            })
        });
        tokio::block_on(nd.ctl.update_leases());
        if req["lease_loop"].as_bool().unwrap_or(true) {
            let c = nd.ctl.clone();
            std::thread::spawn(move || tokio::block_on(c.run_lease_update_loop()));
        }
        if req["monitor"].as_bool().unwrap_or(true) {
            let c = nd.ctl.clone();
            let cfg = <crate::config::NodeConfig as clap::Parser>::parse_from(["dw", "--node-id", &nd.id.to_string()]);
            std::thread::spawn(move || tokio::block_on(crate::monitor::Monitor::new(c, cfg).run()));
        }
        // follower applier: applies the committed command log in order, with a (seeded) lag
        if nd.id != 1 {
            let cl = cluster.clone();
            let id = nd.id;
            let stop = stop.clone();
            std::thread::spawn(move || {
                let mut r: u64 = 0x9E3779B97F4A7C15 ^ (id << 17) ^ lag_us;
                while !stop.load(Ordering::Relaxed) {
                    cl.catch_up(id);
                    r ^= r << 13;
                    r ^= r >> 7;
                    r ^= r << 17;
                    let d = if lag_us == 0 { 200 } else { r % (lag_us + 1) };
                    std::thread::sleep(Duration::from_micros(d.max(50)));
                }
            });
        }
    }
    Ok(World { cluster, nodes, stop })
}

pub fn serve() {
    let stdin = std::io::stdin();
    let stdout = std::io::stdout();
    let mut world: Option<World> = None;
    for line in stdin.lock().lines() {
        let Ok(line) = line else { break };
        if line.trim().is_empty() {
            continue;
        }
        let req: Value = serde_json::from_str(&line).unwrap_or(json!({"op": "bad"}));
        let rep = match req["op"].as_str().unwrap_or("") {
            "start" => match start(&req) {
                Ok(w) => {
                    let ptrs: Vec<Value> = w.nodes.iter().map(|n| json!({"id": n.id, "bucket": n.bucket_ptr, "metadata": n.md_ptr})).collect();
                    world = Some(w);
                    json!({"ok": true, "nodes": ptrs})
                }
                Err(e) => json!({"err": e}),
            },
            "events" => {
                let ev: Vec<Value> = crate::verif_events::take().into_iter().map(|(n, k, v)| json!([n, k, v])).collect();
                json!({"ok": true, "events": ev})
            }
            "sync" => {
                // quiescent point: every follower applies the whole log, every node refreshes its leases
                if let Some(w) = &world {
                    for n in w.nodes.iter() {
                        w.cluster.catch_up(n.id);
                    }
                    for n in w.nodes.iter() {
                        tokio::block_on(n.ctl.update_leases());
                    }
                }
                json!({"ok": true})
            }
            "state" => {
                let mut out = vec![];
                if let Some(w) = &world {
                    for n in w.nodes.iter() {
                        let t = req["topic"].as_str().unwrap_or("");
                        out.push(json!({"node": n.id, "topic": n.md.get_topic_state(t).map(|s| serde_json::to_value(&s).unwrap())}));
                    }
                }
                json!({"ok": true, "state": out})
            }
            "fence_probe" => {
                // quiescent-point probe of the lease fencing (C23): what a forwarded PUT carrying a stale segment key does, aimed at
                // segments that the node's own applied metadata has sealed at least `min_age` rollovers ago. Run after the event log
                // and the client history of the execution have been collected (an accepted probe write pollutes the segment).
                let mut out = vec![];
                if let Some(w) = &world {
                    let t = req["topic"].as_str().unwrap_or("");
                    let min_age = req["min_age"].as_u64().unwrap_or(1);
                    for n in w.nodes.iter() {
                        let Some(st) = n.md.get_topic_state(t) else { continue };
                        let mut segs: Vec<u64> = st.sealed_segments.keys().copied().filter(|s| s + min_age <= st.current_segment).collect();
                        segs.sort();
                        for s in segs.into_iter().rev().take(4) {
                            let key = crate::controller::wal_key(t, s);
                            let resp = tokio::block_on(n.ctl.handle_rpc(InternalOp::ForwardAppend { wal_key: key.clone(), data: b"fence-probe".to_vec() }));
                            let accepted = matches!(resp, InternalResp::Ok);
                            out.push(json!({"node": n.id, "segment": s, "key": key, "current_segment": st.current_segment,
                                            "assigned_to": st.segment_leaders.get(&s), "accepted": accepted, "resp": format!("{:?}", resp)}));
                        }
                    }
                }
                json!({"ok": true, "probes": out})
            }
            "fence_probe_fresh" => {
                // single node, no lease loop, no monitor, no client left: every lease refresh happens inside the calls made here. Fill the open
                // segment until this node applies the rollover sealing it, then send one more forwarded append with the key of the segment
                // just sealed - the first lease refresh after the sealing is the one this call performs itself; it must be refused.
                let mut out = json!({"skipped": "not a single-node cluster"});
                if let Some(w) = &world {
                    if w.nodes.len() == 1 {
                        let n = &w.nodes[0];
                        let t = req["topic"].as_str().unwrap_or("");
                        let max_appends = req["max_appends"].as_u64().unwrap_or(6);
                        if let Some(st) = n.md.get_topic_state(t) {
                            let s0 = st.current_segment;
                            let key = crate::controller::wal_key(t, s0);
                            let mut sealed = false;
                            let mut sent = 0u64;
                            for _ in 0..max_appends {
                                let resp = tokio::block_on(n.ctl.handle_rpc(InternalOp::ForwardAppend { wal_key: key.clone(), data: b"fresh-seal-filler".to_vec() }));
                                sent += 1;
                                if !matches!(resp, InternalResp::Ok) {
                                    break;
                                }
                                if n.md.get_topic_state(t).map(|x| x.current_segment != s0).unwrap_or(false) {
                                    sealed = true;
                                    break;
                                }
                            }
                            if sealed {
                                let st2 = n.md.get_topic_state(t).unwrap();
                                let resp = tokio::block_on(n.ctl.handle_rpc(InternalOp::ForwardAppend { wal_key: key.clone(), data: b"fence-probe-fresh".to_vec() }));
                                out = json!({"node": n.id, "key": key, "sealed_segment": s0, "current_segment": st2.current_segment, "new_leader": st2.leader_node,
                                             "fillers": sent, "accepted": matches!(resp, InternalResp::Ok), "resp": format!("{:?}", resp)});
                            } else {
                                out = json!({"skipped": "no rollover applied within the filler appends", "fillers": sent});
                            }
                        }
                    }
                }
                json!({"ok": true, "probe": out})
            }
            "exit" => {
                let mut o = stdout.lock();
                let _ = writeln!(o, "@{}", json!({"ok": true}));
                let _ = o.flush();
                unsafe { libc::_exit(0) }
            }
            _ => json!({"err": "badop"}),
        };
        let mut o = stdout.lock();
        let _ = writeln!(o, "@{}", rep);
        let _ = o.flush();
    }
    if let Some(w) = &world {
        w.stop.store(true, Ordering::Relaxed);
    }
}
