//! dw: harness over the real distributed-walrus sources (compiled unchanged via #[path]) against the stand-in crates
//! of /verif/standins (tokio: blocking thread-per-task; bincode: 1.3 wire format; octopii: in-process linearizable
//! command log). Sub-commands:
//!   c25 <maxlen> <nrandom> <seed>              wal_key / parse_wal_key round trip + injectivity
//!   meta <depth> <nrandom> <seed>              metadata state machine: invariants (C18) and snapshot/restore (C20 part 1)
//!   serve                                      full stack, JSON-lines control on stdin (C22, C23, C24)
#![allow(dead_code)]
#[path = "/repo/distributed-walrus/src/bucket.rs"]
mod bucket;
#[path = "/repo/distributed-walrus/src/client.rs"]
mod client;
#[path = "/repo/distributed-walrus/src/config.rs"]
mod config;
#[path = "/repo/distributed-walrus/src/controller/mod.rs"]
mod controller;
#[path = "/repo/distributed-walrus/src/metadata.rs"]
mod metadata;
#[path = "/repo/distributed-walrus/src/monitor.rs"]
mod monitor;
#[path = "/repo/distributed-walrus/src/rpc.rs"]
mod rpc;

mod explore;
mod serve;

/// Event log + delay points the cfg(feature = "verif") lines in distributed-walrus call into.
pub mod verif_events {
    use std::sync::atomic::{AtomicU64, Ordering};
    use std::sync::Mutex;
    pub static LOG: Mutex<Vec<(u64, String, String)>> = Mutex::new(Vec::new());
    static SEQ: AtomicU64 = AtomicU64::new(0);
    pub static DELAY_SEED: AtomicU64 = AtomicU64::new(0);
    /// recorded under one mutex: the sequence number is the global order of the events
    pub fn record(kind: &str, key: &str) {
        let mut g = LOG.lock().unwrap();
        let n = SEQ.fetch_add(1, Ordering::SeqCst) + 1;
        g.push((n, kind.to_string(), key.to_string()));
    }
    pub fn take() -> Vec<(u64, String, String)> {
        std::mem::take(&mut *LOG.lock().unwrap())
    }
    thread_local!(static R: std::cell::Cell<u64> = const { std::cell::Cell::new(0) });
    /// seeded random delay (free-running schedule perturbation); no-op when the seed is 0
    pub fn sched_point(_site: &str) {
        let s = DELAY_SEED.load(Ordering::Relaxed);
        if s == 0 {
            return;
        }
        let mut r = R.with(|c| c.get());
        if r == 0 {
            let t = std::thread::current().id();
            let mut h = std::collections::hash_map::DefaultHasher::new();
            std::hash::Hash::hash(&t, &mut h);
            r = (s ^ std::hash::Hasher::finish(&h)) | 1;
        }
        r ^= r << 13;
        r ^= r >> 7;
        r ^= r << 17;
        R.with(|c| c.set(r));
        match r % 10 {
            0 | 1 => std::thread::sleep(std::time::Duration::from_micros((r >> 8) % 400)),
            2 | 3 | 4 => std::thread::yield_now(),
            _ => {}
        }
    }
}

fn main() {
    std::env::set_var("WALRUS_QUIET", "1");
    let a: Vec<String> = std::env::args().collect();
    match a.get(1).map(|s| s.as_str()) {
        Some("c25") => explore::c25(&a[2..]),
        Some("meta") => explore::meta(&a[2..]),
        Some("serve") => serve::serve(),
        _ => {
            eprintln!("usage: dw c25|meta|serve ...");
            std::process::exit(2);
        }
    }
    unsafe { libc::_exit(0) }
}
