#!/usr/bin/env python3
"""Regenerates MANIFEST.json from the table below (kept next to the checks so the two cannot drift)."""
import json, subprocess
CHECKS = {
 'C01': ('exploration', 'generated single-lifetime programs vs. lock-step sequential model', '2.1'),
 'C02': ('exploration', 'peek/offset-read programs; reclamation bookkeeping snapshots around every non-consuming call', '2.1'),
 'C03': ('exploration', 'cap/budget/progress monitor on every batch read of generated programs', '2.1'),
 'C04': ('fault_enumeration', 'failpoint-injected I/O failures and rejected operations vs. lock-step model', '2.2'),
 'C05': ('exploration', 'real threads serialised by a token scheduler at the engine sched_point hooks (bounded DFS, random walk, PCT, free-running); API-boundary histories checked for exactly-once, per-producer order, batch contiguity; physical log re-read by a fresh process', '2.5'),
 'C06': ('exploration', 'restart/reopen histories (incl. file-naming clock regression) vs. lock-step model', '2.1'),
 'C07': ('fault_enumeration', 'crash-point enumeration over the verif I/O-event hook (_exit before the k-th event per thread class; io_uring batch subsets), recovery in fresh processes vs. acknowledgement log', '2.4'),
 'C08': ('fault_enumeration', 'crash points inside batch appends (per block write; every prefix / single omission / random subset of an io_uring batch), all-or-nothing oracle on the recovered topic', '2.4'),
 'C09': ('fault_enumeration', 'crash-point enumeration on read-dominated workloads, resumed consumer position vs. returned reads (strict: exact; at-least-once: never ahead, bounded redelivery)', '2.4'),
 'C11': ('exploration', 'byte-level mutation of engine-written directories (headers, payloads, cursor index, marker file, truncation, stray files) opened by fresh debug / ASan / release workers; payload provenance oracle', '2.6'),
 'C14': ('exploration', 'hostile key strings through every constructor in a sandbox tree; created files located', '2.3'),
 'C15': ('exploration', 'count probes at quiescent points vs. appended-minus-consumed of the model', '2.1'),
 'C16': ('exploration', 'differential execution per backend in separate processes, transcripts compared', '2.1'),
 'C17': ('exploration', 'marker histories with immediate reopen/restart vs. last-writer model', '2.1'),
}
NA = {
 'C10': 'needs the I/O-trace power-loss replayer of DESIGN.md 3, not built - not claimed',
 'C12': 'needs >= 100 block allocations (1 GiB) per history and the reclaim-pass hook; driver not built - not claimed',
 'C13': 'multi-instance driver not built - not claimed',
 'C18': 'distributed-walrus does not build offline (tokio, bincode, ... are not in the cargo cache); the stand-in-crate harness of DESIGN.md 0 was not ported into /verif - not claimed',
 'C19': 'octopii/openraft cannot be built offline (tokio, quinn, ... missing); runtime monitoring cannot execute the real code - not claimed',
 'C20': 'as C19 for the Raft adapter; the metadata snapshot part shares the C18 harness, not ported - not claimed',
 'C21': 'octopii WAL harness (stand-in error module) not ported into /verif - not claimed',
 'C22': 'full-stack harness over stand-in tokio/octopii not ported into /verif - not claimed',
 'C23': 'as C22 - not claimed',
 'C24': 'as C18 (client.rs needs the tokio stand-in) - not claimed',
 'C25': 'as C18 - not claimed',
}
LEVEL_TEXT = {
 'exploration': 'held on every generated execution of this run (randomised workloads aimed at the engine constants, oracle = executable sequential model observing the real engine through its public API and the verif accessors); evidence lists programs, consumed entries, rotations, reopen events actually observed. Not a proof: says nothing about programs outside the generator.',
 'fault_enumeration:crash': 'every numbered I/O event of each generated workload (sampled down to the tier budget) is used once as a crash point: the worker process dies with _exit(137) before the event; io_uring batches additionally with chosen subsets of their writes applied. Recovery is observed in fresh processes. Held on the crash points of this run only; the evidence counts points per thread class, per event kind and per in-flight operation.',
 'fault_enumeration': 'one injected failure per faulted operation at the verif failpoints (io_uring completion i forced negative/short, submission, block write, file create/set_len/fsync, flush), position and kind drawn per program; the evidence counts faults that actually fired per kind. Held on the executions of this run only.',
}
def main():
    hooks = subprocess.run(['git', '-C', '/repo', 'log', '--format=%h %s', '--grep=verif hooks'], capture_output=True, text=True).stdout.strip().splitlines()
    m = {'version': 1, 'setup_cmd': './setup.sh',
         'hooks': {'guard': 'cargo feature `verif` on walrus-rust (cfg(feature = "verif")), off by default',
                   'enable': 'harness/wsrv depends on walrus-rust at path /repo with features=["verif"]; every check rebuilds it with cargo from the working tree',
                   'baseline_off_cmd': 'cd /repo && cargo nextest run --workspace --no-fail-fast --tool-config-file pb:/w/lib/nextest.toml --profile pb --test-threads 8 --offline',
                   'source_commits': [h.split()[0] for h in hooks], 'add_only': True},
         'engines': [{'name': 'wsrv', 'path': 'harness/wsrv', 'serves_properties': sorted(CHECKS), 'kind_free_text': 'JSON-lines op server over the real engine (public API + verif hooks); python drivers hold the models/oracles (vlib/seq.py)'}],
         'checks': [], 'not_applicable': [{'property_id': k, 'reason': v} for k, v in sorted(NA.items())],
         'notes': 'Runtime monitoring only. Known findings: known_findings.json (open entries print KNOWN-FINDING and do not fail the run; fixed entries suppress nothing). Exit codes of ./check: 0 held, 1 violation, 2 inconclusive/harness error.'}
    for pid, (lvl, tech, ref) in sorted(CHECKS.items()):
        m['checks'].append({'property_id': pid, 'quick_cmd': f'./check {pid} --tier quick', 'thorough_cmd': f'./check {pid} --tier thorough',
                            'evidence_file': f'/verif/evidence/{pid}.json', 'replay_cmd_template': f'./check {pid} --replay {{path}}', 'engine': 'wsrv',
                            'level_claimed': {'category': lvl, 'text': LEVEL_TEXT.get(lvl + ':crash') if pid in ('C07', 'C08', 'C09') else LEVEL_TEXT[lvl], 'design_ref': 'DESIGN.md section B.' + ref},
                            'level_note': 'trusted base: the python model (vlib/seq.py), payload identity via (length, crc32, first 24 bytes), the verif hooks being behaviour-neutral when unarmed; single client thread',
                            'technique': tech})
    json.dump(m, open('MANIFEST.json', 'w'), indent=1)
    print('checks', len(m['checks']), 'not_applicable', len(m['not_applicable']))
if __name__ == '__main__':
    main()
